package gen

import (
	"fmt"
	"math/rand/v2"
)

// Meaning-preserving rewrites (C09). Each returns a new program sharing unchanged subtrees.

// Rewriter applies rewrites with per-site probability.
type Rewriter struct {
	Rng     *rand.Rand
	P       int // per-site probability in percent
	n       int
	newFns  []*Func
	Applied map[string]int
	// sites whose rewrite turned a constant fixed-array index into a non-constant one
	MadeIndexNonConst bool
	indexVars         map[string]bool // variables read inside a fixed-array index expression
}

func (r *Rewriter) hit() bool { return r.Rng.IntN(100) < r.P }

func (r *Rewriter) litFunc(l *Lit) Expr {
	r.n++
	f := &Func{Name: fmt.Sprintf("lit%d", r.n), Ret: l.T, Body: []Stmt{&Return{X: l}}}
	r.newFns = append(r.newFns, f)
	r.Applied["literal->call"]++
	return &Call{Fn: f}
}

// rewriteExpr replaces integer literals in operand positions by calls.
func (r *Rewriter) rewriteExpr(e Expr, allowLit bool) Expr {
	switch n := e.(type) {
	case *Lit:
		if allowLit && n.T.K == KInt && r.hit() {
			return r.litFunc(n)
		}
		return n
	case *Bin:
		if n.Op == "/" || n.Op == "%" {
			// keep the divisor a literal (the generator's guarantee that it is neither 0 nor -1 is
			// syntactic; the value is unchanged anyway, but stay conservative about folding of /0 checks)
			return &Bin{Op: n.Op, L: r.rewriteExpr(n.L, false), R: n.R, T: n.T}
		}
		lt := n.L.Ty()
		_ = lt
		// a literal next to a typed operand adapts to it; replacing it by a call of the same type keeps types
		return &Bin{Op: n.Op, L: r.rewriteExpr(n.L, true), R: r.rewriteExpr(n.R, true), T: n.T}
	case *Un:
		return &Un{Op: n.Op, X: r.rewriteExpr(n.X, false)}
	case *Cast:
		return &Cast{X: r.rewriteExpr(n.X, false), T: n.T}
	case *Call:
		args := make([]Expr, len(n.Args))
		for i, a := range n.Args {
			args[i] = r.rewriteExpr(a, true)
		}
		return &Call{Fn: n.Fn, Args: args}
	case *MCall:
		args := make([]Expr, len(n.Args))
		for i, a := range n.Args {
			args[i] = r.rewriteExpr(a, true)
		}
		return &MCall{Recv: n.Recv, M: n.M, Args: args}
	case *ClosureCall:
		args := make([]Expr, len(n.Args))
		for i, a := range n.Args {
			args[i] = r.rewriteExpr(a, true)
		}
		return &ClosureCall{Name: n.Name, C: n.C, Args: args}
	case *Index:
		xt := n.X.Ty()
		if xt.K == KRef {
			xt = xt.Elem
		}
		if xt.K == KArr {
			return n // fixed-array indices must stay compile-time constants (documented rule)
		}
		return &Index{X: n.X, I: r.rewriteExpr(n.I, true), T: n.T}
	}
	return e
}

func hasCall(e Expr) bool {
	switch n := e.(type) {
	case *Call, *MCall, *ClosureCall, *Catch:
		return true
	case *Bin:
		return hasCall(n.L) || hasCall(n.R)
	case *Un:
		return hasCall(n.X)
	case *Cast:
		return hasCall(n.X)
	case *Index:
		return hasCall(n.X) || hasCall(n.I)
	case *FieldX:
		return hasCall(n.X)
	}
	return false
}

// hoistable finds a side-effect-free arithmetic subexpression (not the whole expression).
func (r *Rewriter) hoist(e Expr, top bool, pre *[]Stmt) Expr {
	switch n := e.(type) {
	case *Bin:
		if !top && n.T.K == KInt && !hasCall(n) && !hasDynIndex(n) && r.hit() {
			r.n++
			name := fmt.Sprintf("h%d", r.n)
			*pre = append(*pre, &Let{Name: name, T: n.T, Init: n, Annot: true, Const: r.Rng.IntN(2) == 0 && isConstExpr(n)})
			r.Applied["subexpression->local"]++
			return &Var{Name: name, T: n.T}
		}
		if n.Op == "&&" || n.Op == "||" {
			return n
		}
		l := r.hoist(n.L, false, pre)
		// the right operand may only be hoisted when the left one has no side effects
		// (the new local is evaluated before the whole statement)
		if hasCall(n.L) {
			return &Bin{Op: n.Op, L: l, R: n.R, T: n.T}
		}
		return &Bin{Op: n.Op, L: l, R: r.hoist(n.R, false, pre), T: n.T}
	case *Cast:
		return &Cast{X: r.hoist(n.X, false, pre), T: n.T}
	case *Un:
		// -x on a variable or constant: bound to a fresh immutable local just before its use
		if n.Op == "-" && n.X.Ty().K == KInt && !hasCall(n.X) && !hasDynIndex(n.X) && r.hit() {
			r.n++
			name := fmt.Sprintf("h%d", r.n)
			*pre = append(*pre, &Let{Name: name, T: n.X.Ty(), Init: n, Annot: true, Const: r.Rng.IntN(2) == 0})
			r.Applied["subexpression->local"]++
			return &Var{Name: name, T: n.X.Ty()}
		}
	}
	return e
}

func hasDynIndex(e Expr) bool {
	switch n := e.(type) {
	case *Index:
		return true // indexing may panic: moving it would move the panic point
	case *Bin:
		return hasDynIndex(n.L) || hasDynIndex(n.R)
	case *Un:
		return hasDynIndex(n.X)
	case *Cast:
		return hasDynIndex(n.X)
	}
	return false
}

func isConstExpr(e Expr) bool {
	switch n := e.(type) {
	case *Lit:
		return true
	case *Bin:
		return isConstExpr(n.L) && isConstExpr(n.R)
	case *Cast:
		return isConstExpr(n.X)
	}
	return false
}

// assigned collects the names that are ever assigned, incremented, mutably borrowed,
// appended to, or used as loop counters.
func assigned(ss []Stmt, out map[string]bool) {
	var place func(e Expr)
	place = func(e Expr) {
		switch n := e.(type) {
		case *Var:
			out[n.Name] = true
		case *FieldX:
			place(n.X)
		case *Index:
			place(n.X)
		}
	}
	var ex func(e Expr)
	ex = func(e Expr) {
		switch n := e.(type) {
		case *Borrow:
			place(n.X) // shared borrows too: a const cannot be borrowed
		case *Bin:
			ex(n.L)
			ex(n.R)
		case *Un:
			ex(n.X)
		case *Cast:
			ex(n.X)
		case *Call:
			for _, a := range n.Args {
				ex(a)
			}
		case *MCall:
			place(n.Recv)
			for _, a := range n.Args {
				ex(a)
			}
		case *ClosureCall:
			for _, a := range n.Args {
				ex(a)
			}
		case *Catch:
			ex(n.Call)
			assigned(n.Handler, out)
		case *Index:
			ex(n.I)
		}
	}
	for _, s := range ss {
		switch n := s.(type) {
		case *Assign:
			place(n.LHS)
			ex(n.RHS)
		case *IncDec:
			place(n.X)
		case *Append:
			place(n.Arr)
			ex(n.Val)
		case *Let:
			ex(n.Init)
		case *LetClosure:
			assigned(n.C.Body, out)
		case *If:
			ex(n.Cond)
			assigned(n.Then, out)
			assigned(n.Else, out)
		case *While:
			ex(n.Cond)
			assigned(n.Body, out)
		case *ForRange:
			assigned(n.Body, out)
		case *ForDyn:
			assigned(n.Body, out)
		case *Match:
			for _, a := range n.Arms {
				assigned(a.Body, out)
			}
			assigned(n.Default, out)
		case *Block:
			assigned(n.Body, out)
		case *ExprStmt:
			ex(n.X)
		case *Print:
			ex(n.X)
		case *Return:
			if n.X != nil {
				ex(n.X)
			}
		}
	}
}

func (r *Rewriter) stmts(ss []Stmt, mut map[string]bool) []Stmt {
	var out []Stmt
	for _, s := range ss {
		var pre []Stmt
		switch n := s.(type) {
		case *Let:
			if n.Const || n.T.K != KInt {
				out = append(out, n)
				continue
			}
			init := n.Init
			switch k := r.Rng.IntN(3); {
			case r.indexVars[n.Name]:
				// feeds a fixed-array index: its initialiser stays a compile-time constant
				// (documented rule), only let->const applies
			case k == 0:
				init = r.rewriteExpr(init, n.Annot)
			default:
				init = r.hoist(init, true, &pre)
			}
			nl := &Let{Name: n.Name, T: n.T, Init: init, Annot: n.Annot, Const: n.Const}
			if !mut[n.Name] && n.Annot && isConstExpr(n.Init) && init == n.Init && r.hit() {
				nl.Const = true // a never-reassigned let with a constant initialiser becomes a const
				r.Applied["let->const"]++
			}
			out = append(append(out, pre...), nl)
		case *Assign:
			rhs := n.RHS
			if n.RHS.Ty().K == KInt {
				if r.Rng.IntN(2) == 0 {
					rhs = r.rewriteExpr(rhs, true)
				} else {
					rhs = r.hoist(rhs, true, &pre)
				}
			}
			var st Stmt = &Assign{LHS: n.LHS, Op: n.Op, RHS: rhs}
			if r.hit() && r.Rng.IntN(2) == 0 {
				r.Applied["wrap-in-if-true"]++
				st = &If{Cond: &Lit{T: TBool, I: 1}, Then: []Stmt{st}}
			}
			out = append(append(out, pre...), st)
		case *ExprStmt:
			// arguments of a call statement, left to right, as long as nothing before them has
			// side effects
			if cl, ok := n.X.(*Call); ok {
				args := make([]Expr, len(cl.Args))
				clean := true
				for k, a := range cl.Args {
					args[k] = a
					if clean && a.Ty().K == KInt {
						args[k] = r.hoist(a, false, &pre)
					}
					clean = clean && !hasCall(a)
				}
				out = append(append(out, pre...), &ExprStmt{X: &Call{Fn: cl.Fn, Args: args}})
			} else {
				out = append(out, n)
			}
		case *Print:
			if _, isVar := n.X.(*Var); !isVar && n.X.Ty().K == KInt {
				if x := r.hoist(n.X, false, &pre); x != n.X {
					out = append(append(out, pre...), &Print{X: x})
					continue
				}
			}
			if r.hit() {
				r.Applied["wrap-in-if-true"]++
				out = append(out, &If{Cond: &Lit{T: TBool, I: 1}, Then: []Stmt{n}})
			} else {
				out = append(out, n)
			}
		case *If:
			// literals inside a condition may become calls (a call returning a literal is pure, so
			// this also holds for loop conditions, which are re-evaluated)
			out = append(out, &If{Cond: r.rewriteExpr(n.Cond, true), Then: r.stmts(n.Then, mut), Else: r.stmtsOrNil(n.Else, mut)})
		case *While:
			out = append(out, &While{Cond: r.rewriteExpr(n.Cond, true), Body: r.stmts(n.Body, mut)})
		case *ForRange:
			fr := &ForRange{Var: n.Var, T: n.T, Lo: r.rewriteExpr(n.Lo, true), Hi: r.rewriteExpr(n.Hi, true), Incl: n.Incl, Body: r.stmts(n.Body, mut)}
			if n.Step != nil {
				fr.Step = r.rewriteExpr(n.Step, true)
			}
			out = append(out, fr)
		case *Match:
			m := &Match{Subj: n.Subj, HasDef: n.HasDef, Default: r.stmtsOrNil(n.Default, mut)}
			for _, a := range n.Arms {
				m.Arms = append(m.Arms, MatchArm{Pat: a.Pat, Body: r.stmts(a.Body, mut)})
			}
			out = append(out, m)
		case *Block:
			out = append(out, &Block{Body: r.stmts(n.Body, mut)})
		case *Append, *IncDec:
			// statements that declare nothing may be wrapped in `if true { }`
			if r.hit() {
				r.Applied["wrap-in-if-true"]++
				out = append(out, &If{Cond: &Lit{T: TBool, I: 1}, Then: []Stmt{s}})
			} else {
				out = append(out, s)
			}
		default:
			out = append(out, s)
		}
	}
	return out
}

func (r *Rewriter) stmtsOrNil(ss []Stmt, mut map[string]bool) []Stmt {
	if ss == nil {
		return nil
	}
	return r.stmts(ss, mut)
}

// Rewrite produces a meaning-preserving variant of p.
func (r *Rewriter) Rewrite(p *Program) *Program {
	if r.Applied == nil {
		r.Applied = map[string]int{}
	}
	r.indexVars = map[string]bool{}
	collectIndexVars(p.Main, r.indexVars)
	for _, f := range p.Funcs {
		collectIndexVars(f.Body, r.indexVars)
	}
	mut := map[string]bool{}
	assigned(p.Main, mut)
	q := &Program{Types: p.Types, Features: p.Features}
	q.Main = r.stmts(p.Main, mut)
	for _, f := range p.Funcs {
		fm := map[string]bool{}
		assigned(f.Body, fm)
		q.Funcs = append(q.Funcs, &Func{Name: f.Name, Recv: f.Recv, Params: f.Params, Ret: f.Ret, ErrStr: f.ErrStr, Body: r.stmts(f.Body, fm)})
	}
	// calls inside the rewritten bodies still point at the original Func objects: same names
	q.Funcs = append(q.Funcs, r.newFns...)
	return q
}

// collectIndexVars gathers the names of variables read inside the index of a fixed-array access.
func collectIndexVars(ss []Stmt, out map[string]bool) {
	var vars func(e Expr)
	vars = func(e Expr) {
		switch n := e.(type) {
		case *Var:
			out[n.Name] = true
		case *Bin:
			vars(n.L)
			vars(n.R)
		case *Un:
			vars(n.X)
		case *Cast:
			vars(n.X)
		}
	}
	var expr func(e Expr)
	expr = func(e Expr) {
		switch n := e.(type) {
		case *Index:
			xt := n.X.Ty()
			if xt.K == KRef {
				xt = xt.Elem
			}
			if xt.K == KArr {
				vars(n.I)
			}
			expr(n.X)
			expr(n.I)
		case *Bin:
			expr(n.L)
			expr(n.R)
		case *Un:
			expr(n.X)
		case *Cast:
			expr(n.X)
		case *FieldX:
			expr(n.X)
		case *Call:
			for _, a := range n.Args {
				expr(a)
			}
		case *MCall:
			expr(n.Recv)
			for _, a := range n.Args {
				expr(a)
			}
		case *ClosureCall:
			for _, a := range n.Args {
				expr(a)
			}
		case *Borrow:
			expr(n.X)
		case *Len:
			expr(n.X)
		case *StructLit:
			for _, a := range n.Vals {
				expr(a)
			}
		case *ArrLit:
			for _, a := range n.Elems {
				expr(a)
			}
		case *Catch:
			expr(n.Call)
			expr(n.Fallback)
			collectIndexVars(n.Handler, out)
		}
	}
	for _, s := range ss {
		switch n := s.(type) {
		case *Let:
			expr(n.Init)
		case *LetClosure:
			collectIndexVars(n.C.Body, out)
		case *Assign:
			expr(n.LHS)
			expr(n.RHS)
		case *IncDec:
			expr(n.X)
		case *If:
			expr(n.Cond)
			collectIndexVars(n.Then, out)
			collectIndexVars(n.Else, out)
		case *While:
			expr(n.Cond)
			collectIndexVars(n.Body, out)
		case *ForRange:
			expr(n.Lo)
			expr(n.Hi)
			if n.Step != nil {
				expr(n.Step)
			}
			collectIndexVars(n.Body, out)
		case *ForDyn:
			expr(n.Arr)
			collectIndexVars(n.Body, out)
		case *Print:
			expr(n.X)
		case *ExprStmt:
			expr(n.X)
		case *Return:
			if n.X != nil {
				expr(n.X)
			}
		case *Match:
			expr(n.Subj)
			for _, a := range n.Arms {
				collectIndexVars(a.Body, out)
			}
			collectIndexVars(n.Default, out)
		case *Append:
			expr(n.Arr)
			expr(n.Val)
		case *Block:
			collectIndexVars(n.Body, out)
		}
	}
}
