package gen

// Site is a statement list of a program where a statement can be inserted.
type Site struct {
	Context string  // main | function | method | closure | if | else | while | for | match-arm | block
	List    *[]Stmt // the list itself
	Max     int     // insertion index must be <= Max (not after a return / break / continue)
}

func maxInsert(ss []Stmt) int {
	for i, s := range ss {
		switch s.(type) {
		case *Return, *ReturnErr, *Break, *Continue:
			return i
		}
	}
	return len(ss)
}

// Sites enumerates the insertion sites of a program (deep copies are the caller's business:
// the returned pointers alias the program).
func Sites(p *Program) []Site {
	var out []Site
	var walk func(ctx string, list *[]Stmt)
	walk = func(ctx string, list *[]Stmt) {
		out = append(out, Site{Context: ctx, List: list, Max: maxInsert(*list)})
		for _, s := range *list {
			switch n := s.(type) {
			case *If:
				walk("if", &n.Then)
				if n.Else != nil {
					walk("else", &n.Else)
				}
			case *While:
				walk("while", &n.Body)
			case *ForRange:
				walk("for", &n.Body)
			case *ForDyn:
				walk("for", &n.Body)
			case *Match:
				for i := range n.Arms {
					walk("match-arm", &n.Arms[i].Body)
				}
				if n.HasDef {
					walk("match-arm", &n.Default)
				}
			case *Block:
				walk("block", &n.Body)
			case *LetClosure:
				walk("closure", &n.C.Body)
			}
		}
	}
	walk("main", &p.Main)
	for _, f := range p.Funcs {
		ctx := "function"
		if f.Recv != nil {
			ctx = "method"
		}
		walk(ctx, &f.Body)
	}
	return out
}

// InsertAt returns a copy-on-write insertion: the list of the site gets text inserted at index i.
// The previous list is restored by calling the returned function.
func InsertAt(site Site, i int, s Stmt) (undo func()) {
	old := *site.List
	nl := make([]Stmt, 0, len(old)+1)
	nl = append(nl, old[:i]...)
	nl = append(nl, s)
	nl = append(nl, old[i:]...)
	*site.List = nl
	return func() { *site.List = old }
}
