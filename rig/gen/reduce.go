package gen

// Reduce shrinks a program while pred keeps returning true. It removes statements of main
// (outermost first), then statements nested in blocks, then unused functions and types.
// pred must return false for programs that no longer show the behaviour of interest
// (including programs that no longer compile for an unrelated reason).
func Reduce(p *Program, pred func(*Program) bool) *Program {
	cur := p
	changed := true
	for changed {
		changed = false
		// main statements
		for i := 0; i < len(cur.Main); i++ {
			cand := cloneShallow(cur)
			cand.Main = append(append([]Stmt{}, cur.Main[:i]...), cur.Main[i+1:]...)
			if pred(cand) {
				cur = cand
				changed = true
				i--
			}
		}
		// flatten / empty nested bodies
		for i := 0; i < len(cur.Main); i++ {
			for _, alt := range simplifyStmt(cur.Main[i]) {
				cand := cloneShallow(cur)
				cand.Main = append(append(append([]Stmt{}, cur.Main[:i]...), alt...), cur.Main[i+1:]...)
				if pred(cand) {
					cur = cand
					changed = true
					break
				}
			}
		}
		// functions
		for i := 0; i < len(cur.Funcs); i++ {
			cand := cloneShallow(cur)
			cand.Funcs = append(append([]*Func{}, cur.Funcs[:i]...), cur.Funcs[i+1:]...)
			if pred(cand) {
				cur = cand
				changed = true
				i--
			}
		}
		for i := 0; i < len(cur.Types); i++ {
			cand := cloneShallow(cur)
			cand.Types = append(append([]*Type{}, cur.Types[:i]...), cur.Types[i+1:]...)
			if pred(cand) {
				cur = cand
				changed = true
				i--
			}
		}
	}
	return cur
}

func cloneShallow(p *Program) *Program {
	c := *p
	return &c
}

// simplifyStmt proposes replacements of a compound statement by (parts of) its bodies.
func simplifyStmt(s Stmt) [][]Stmt {
	switch n := s.(type) {
	case *If:
		out := [][]Stmt{n.Then}
		if n.Else != nil {
			out = append(out, n.Else, []Stmt{&If{Cond: n.Cond, Then: n.Then}})
		}
		for i := range n.Then {
			t := append(append([]Stmt{}, n.Then[:i]...), n.Then[i+1:]...)
			out = append(out, []Stmt{&If{Cond: n.Cond, Then: t, Else: n.Else}})
		}
		return out
	case *While:
		var out [][]Stmt
		for i := 1; i < len(n.Body); i++ { // keep the increment at index 0
			t := append(append([]Stmt{}, n.Body[:i]...), n.Body[i+1:]...)
			out = append(out, []Stmt{&While{Cond: n.Cond, Body: t}})
		}
		return out
	case *ForRange:
		var out [][]Stmt
		for i := range n.Body {
			t := append(append([]Stmt{}, n.Body[:i]...), n.Body[i+1:]...)
			out = append(out, []Stmt{&ForRange{Var: n.Var, T: n.T, Lo: n.Lo, Hi: n.Hi, Step: n.Step, Incl: n.Incl, Body: t}})
		}
		return out
	case *Match:
		var out [][]Stmt
		for i := range n.Arms {
			arms := append(append([]MatchArm{}, n.Arms[:i]...), n.Arms[i+1:]...)
			out = append(out, []Stmt{&Match{Subj: n.Subj, Arms: arms, Default: n.Default, HasDef: n.HasDef}})
		}
		out = append(out, n.Default)
		return out
	case *Block:
		return [][]Stmt{n.Body}
	}
	return nil
}
