// Package gen holds the typed mini-AST of Ferret's core language, its pretty printer,
// a reference interpreter (the oracle of C01/C04/C05/C07/C08/C09) and the random generator.
package gen

import (
	"fmt"
	"strings"
)

// Kind of a type.
type Kind int

const (
	KInt Kind = iota
	KBool
	KStr
	KStruct
	KEnum
	KArr // fixed [N]T
	KDyn // []T
	KRef // &T / &'T
	KVoid
)

// Type of the mini language.
type Type struct {
	K        Kind
	Bits     int
	Signed   bool
	Name     string   // struct / enum name
	Fields   []Field  // struct
	Variants []string // enum
	N        int      // fixed array length
	Elem     *Type    // array / dyn / ref
	Mut      bool     // &'T
}

// Field of a struct.
type Field struct {
	Name string
	T    *Type
}

var (
	TBool = &Type{K: KBool}
	TStr  = &Type{K: KStr}
	TVoid = &Type{K: KVoid}
	I8    = &Type{K: KInt, Bits: 8, Signed: true}
	I16   = &Type{K: KInt, Bits: 16, Signed: true}
	I32   = &Type{K: KInt, Bits: 32, Signed: true}
	I64   = &Type{K: KInt, Bits: 64, Signed: true}
	U8    = &Type{K: KInt, Bits: 8}
	U16   = &Type{K: KInt, Bits: 16}
	U32   = &Type{K: KInt, Bits: 32}
	U64   = &Type{K: KInt, Bits: 64}
	// IntTypes in declaration order.
	IntTypes = []*Type{I8, I16, I32, I64, U8, U16, U32, U64}
)

func (t *Type) String() string {
	switch t.K {
	case KInt:
		if t.Signed {
			return fmt.Sprintf("i%d", t.Bits)
		}
		return fmt.Sprintf("u%d", t.Bits)
	case KBool:
		return "bool"
	case KStr:
		return "str"
	case KStruct, KEnum:
		return t.Name
	case KArr:
		return fmt.Sprintf("[%d]%s", t.N, t.Elem)
	case KDyn:
		return "[]" + t.Elem.String()
	case KRef:
		if t.Mut {
			return "&'" + t.Elem.String()
		}
		return "&" + t.Elem.String()
	}
	return "void"
}

// Eq is structural/nominal type equality.
func (t *Type) Eq(o *Type) bool {
	if t == o {
		return true
	}
	if t == nil || o == nil || t.K != o.K {
		return false
	}
	switch t.K {
	case KInt:
		return t.Bits == o.Bits && t.Signed == o.Signed
	case KStruct, KEnum:
		return t.Name == o.Name
	case KArr:
		return t.N == o.N && t.Elem.Eq(o.Elem)
	case KDyn:
		return t.Elem.Eq(o.Elem)
	case KRef:
		return t.Mut == o.Mut && t.Elem.Eq(o.Elem)
	}
	return true
}

// Expr is an expression node.
type Expr interface{ Ty() *Type }

type (
	// Lit is an integer, bool or string literal.
	Lit struct {
		T *Type
		I int64 // int value (bit pattern normalised to T), bool as 0/1
		S string
	}
	// Var reads a variable.
	Var struct {
		Name string
		T    *Type
	}
	// Bin is a binary operation. Op in + - * / % == != < <= > >= && ||.
	Bin struct {
		Op   string
		L, R Expr
		T    *Type
	}
	// Un is unary - or !.
	Un struct {
		Op string
		X  Expr
	}
	// Cast is `x as T`.
	Cast struct {
		X Expr
		T *Type
	}
	// Call calls a top-level function.
	Call struct {
		Fn   *Func
		Args []Expr
	}
	// MCall calls a method on a place.
	MCall struct {
		Recv Expr
		M    *Func
		Args []Expr
	}
	// ClosureCall calls a local closure variable.
	ClosureCall struct {
		Name string
		C    *Closure
		Args []Expr
	}
	// FieldX selects a struct field.
	FieldX struct {
		X    Expr
		Name string
		T    *Type
	}
	// Index indexes a fixed array, dynamic array or string.
	Index struct {
		X Expr
		I Expr
		T *Type
	}
	// StructLit is a struct literal (only as an initialiser / assigned value).
	StructLit struct {
		T    *Type
		Vals []Expr
	}
	// ArrLit is an array literal.
	ArrLit struct {
		T     *Type
		Elems []Expr
	}
	// EnumLit is T::Variant.
	EnumLit struct {
		T *Type
		V int
	}
	// Len is len(x).
	Len struct{ X Expr }
	// Borrow is &x / &'x (call arguments and reference lets).
	Borrow struct {
		Mut bool
		X   Expr
	}
	// Catch is `f(args) catch fallback` (handler optional).
	Catch struct {
		Call     *Call
		ErrVar   string // "" = no handler
		Handler  []Stmt
		Fallback Expr
	}
)

func (e *Lit) Ty() *Type         { return e.T }
func (e *Var) Ty() *Type         { return e.T }
func (e *Bin) Ty() *Type         { return e.T }
func (e *Un) Ty() *Type          { return e.X.Ty() }
func (e *Cast) Ty() *Type        { return e.T }
func (e *Call) Ty() *Type        { return e.Fn.Ret }
func (e *MCall) Ty() *Type       { return e.M.Ret }
func (e *ClosureCall) Ty() *Type { return e.C.Ret }
func (e *FieldX) Ty() *Type      { return e.T }
func (e *Index) Ty() *Type       { return e.T }
func (e *StructLit) Ty() *Type   { return e.T }
func (e *ArrLit) Ty() *Type      { return e.T }
func (e *EnumLit) Ty() *Type     { return e.T }
func (e *Len) Ty() *Type         { return I32 }
func (e *Borrow) Ty() *Type      { return &Type{K: KRef, Elem: e.X.Ty(), Mut: e.Mut} }
func (e *Catch) Ty() *Type       { return e.Call.Fn.Ret }

// Stmt is a statement node.
type Stmt interface{}

type (
	// Let declares a variable.
	Let struct {
		Name  string
		T     *Type
		Init  Expr
		Const bool
		Annot bool // print the type annotation
	}
	// LetClosure declares a closure variable.
	LetClosure struct {
		Name string
		C    *Closure
	}
	// Assign is `lhs op rhs` with op in = += -= *=.
	Assign struct {
		LHS Expr
		Op  string
		RHS Expr
	}
	// IncDec is x++ / x--.
	IncDec struct {
		X   Expr
		Inc bool
	}
	// If statement; Else may be nil; ElseIf chains are nested Ifs in Else.
	If struct {
		Cond Expr
		Then []Stmt
		Else []Stmt
	}
	// While loop.
	While struct {
		Cond Expr
		Body []Stmt
	}
	// ForRange is `for v in lo..hi` / `lo..=hi`, optionally `:step` (Step nil = +1).
	ForRange struct {
		Var    string
		T      *Type
		Lo, Hi Expr
		Step   Expr
		Incl   bool
		Body   []Stmt
	}
	// ForDyn iterates a dynamic array: `for v in a` or `for i, v in a`.
	ForDyn struct {
		Idx, Val string
		Arr      Expr
		Body     []Stmt
	}
	// Break / Continue.
	Break    struct{}
	Continue struct{}
	// Print is io::Println(expr).
	Print struct{ X Expr }
	// ExprStmt evaluates a call for its effects.
	ExprStmt struct{ X Expr }
	// Return from a function (X nil for void).
	Return struct{ X Expr }
	// ReturnErr is `return "msg"!;` in a result function.
	ReturnErr struct{ Msg string }
	// Match on an int or enum subject.
	Match struct {
		Subj    Expr
		Arms    []MatchArm
		Default []Stmt // nil = no default arm
		HasDef  bool
	}
	// Append is append(&'a, v).
	Append struct {
		Arr Expr
		Val Expr
	}
	// Block is { ... }.
	Block struct{ Body []Stmt }
	// Raw is source text emitted verbatim (used by fault-injecting monitors; never interpreted).
	Raw struct{ Text string }
)

// MatchArm is one arm.
type MatchArm struct {
	Pat  Expr // Lit or EnumLit
	Body []Stmt
}

// Param of a function.
type Param struct {
	Name string
	T    *Type
}

// Func is a function or method.
type Func struct {
	Name   string
	Recv   *Param // method receiver
	Params []Param
	Ret    *Type
	ErrStr bool // result function: str ! Ret
	Body   []Stmt
}

// Closure is a function literal bound to a local.
type Closure struct {
	Params []Param
	Ret    *Type
	Body   []Stmt
}

// Program is a whole source file.
type Program struct {
	Types    []*Type
	Funcs    []*Func
	Main     []Stmt
	Features map[string]bool
	RawDecls []string // extra top-level declarations emitted verbatim before main
}

// ---- printer --------------------------------------------------------------------------------

type printer struct {
	sb  strings.Builder
	ind int
}

func (p *printer) line(s string) {
	p.sb.WriteString(strings.Repeat("    ", p.ind))
	p.sb.WriteString(s)
	p.sb.WriteByte('\n')
}

// Source renders the program as Ferret source.
func (pr *Program) Source() string {
	p := &printer{}
	p.line("import \"std/io\";")
	p.line("")
	for _, t := range pr.Types {
		switch t.K {
		case KStruct:
			var fs []string
			for _, f := range t.Fields {
				fs = append(fs, fmt.Sprintf(".%s: %s", f.Name, f.T))
			}
			p.line(fmt.Sprintf("type %s struct { %s };", t.Name, strings.Join(fs, ", ")))
		case KEnum:
			p.line(fmt.Sprintf("type %s enum { %s };", t.Name, strings.Join(t.Variants, ", ")))
		}
	}
	if len(pr.Types) > 0 {
		p.line("")
	}
	for _, f := range pr.Funcs {
		p.fn(f)
		p.line("")
	}
	for _, d := range pr.RawDecls {
		for _, l := range strings.Split(d, "\n") {
			p.line(l)
		}
		p.line("")
	}
	p.line("fn main() {")
	p.ind++
	p.stmts(pr.Main)
	p.ind--
	p.line("}")
	return p.sb.String()
}

func (p *printer) fn(f *Func) {
	var ps []string
	for _, a := range f.Params {
		ps = append(ps, fmt.Sprintf("%s: %s", a.Name, a.T))
	}
	head := "fn "
	if f.Recv != nil {
		head += fmt.Sprintf("(%s: %s) ", f.Recv.Name, f.Recv.T)
	}
	head += fmt.Sprintf("%s(%s)", f.Name, strings.Join(ps, ", "))
	if f.Ret != nil && f.Ret.K != KVoid {
		if f.ErrStr {
			head += " -> str ! " + f.Ret.String()
		} else {
			head += " -> " + f.Ret.String()
		}
	}
	p.line(head + " {")
	p.ind++
	p.stmts(f.Body)
	p.ind--
	p.line("}")
}

func (p *printer) stmts(ss []Stmt) {
	for _, s := range ss {
		p.stmt(s)
	}
}

func (p *printer) stmt(s Stmt) {
	switch n := s.(type) {
	case *Let:
		kw := "let"
		if n.Const {
			kw = "const"
		}
		if n.Annot || n.Const {
			p.line(fmt.Sprintf("%s %s: %s = %s;", kw, n.Name, n.T, ExprStr(n.Init)))
		} else {
			p.line(fmt.Sprintf("%s %s := %s;", kw, n.Name, ExprStr(n.Init)))
		}
	case *LetClosure:
		var ps []string
		for _, a := range n.C.Params {
			ps = append(ps, fmt.Sprintf("%s: %s", a.Name, a.T))
		}
		ret := ""
		if n.C.Ret != nil && n.C.Ret.K != KVoid {
			ret = " -> " + n.C.Ret.String()
		}
		p.line(fmt.Sprintf("let %s := fn(%s)%s {", n.Name, strings.Join(ps, ", "), ret))
		p.ind++
		p.stmts(n.C.Body)
		p.ind--
		p.line("};")
	case *Assign:
		p.line(fmt.Sprintf("%s %s %s;", ExprStr(n.LHS), n.Op, ExprStr(n.RHS)))
	case *IncDec:
		op := "++"
		if !n.Inc {
			op = "--"
		}
		p.line(ExprStr(n.X) + op + ";")
	case *If:
		p.ifChain(n, "if ")
	case *While:
		p.line("while " + ExprStr(n.Cond) + " {")
		p.ind++
		p.stmts(n.Body)
		p.ind--
		p.line("}")
	case *ForRange:
		op := ".."
		if n.Incl {
			op = "..="
		}
		step := ""
		if n.Step != nil {
			step = ":" + ExprStr(n.Step)
		}
		p.line(fmt.Sprintf("for %s in %s%s%s%s {", n.Var, ExprStr(n.Lo), op, ExprStr(n.Hi), step))
		p.ind++
		p.stmts(n.Body)
		p.ind--
		p.line("}")
	case *ForDyn:
		if n.Idx != "" {
			p.line(fmt.Sprintf("for %s, %s in %s {", n.Idx, n.Val, ExprStr(n.Arr)))
		} else {
			p.line(fmt.Sprintf("for %s in %s {", n.Val, ExprStr(n.Arr)))
		}
		p.ind++
		p.stmts(n.Body)
		p.ind--
		p.line("}")
	case *Break:
		p.line("break;")
	case *Continue:
		p.line("continue;")
	case *Print:
		p.line("io::Println(" + ExprStr(n.X) + ");")
	case *ExprStmt:
		p.line(ExprStr(n.X) + ";")
	case *Return:
		if n.X == nil {
			p.line("return;")
		} else {
			p.line("return " + ExprStr(n.X) + ";")
		}
	case *ReturnErr:
		p.line(fmt.Sprintf("return %q!;", n.Msg))
	case *Match:
		p.line("match " + ExprStr(n.Subj) + " {")
		p.ind++
		for _, a := range n.Arms {
			p.line(ExprStr(a.Pat) + " => {")
			p.ind++
			p.stmts(a.Body)
			p.ind--
			p.line("}")
		}
		if n.HasDef {
			p.line("_ => {")
			p.ind++
			p.stmts(n.Default)
			p.ind--
			p.line("}")
		}
		p.ind--
		p.line("}")
	case *Append:
		p.line(fmt.Sprintf("append(&'%s, %s);", ExprStr(n.Arr), ExprStr(n.Val)))
	case *Block:
		p.line("{")
		p.ind++
		p.stmts(n.Body)
		p.ind--
		p.line("}")
	case *Raw:
		for _, l := range strings.Split(n.Text, "\n") {
			p.line(l)
		}
	default:
		p.line(fmt.Sprintf("/* unknown stmt %T */", s))
	}
}

func (p *printer) ifChain(n *If, head string) {
	p.line(head + ExprStr(n.Cond) + " {")
	p.ind++
	p.stmts(n.Then)
	p.ind--
	if n.Else == nil {
		p.line("}")
		return
	}
	if len(n.Else) == 1 {
		if ei, ok := n.Else[0].(*If); ok {
			// } else if ... {
			save := p.sb.String()
			_ = save
			p.elseIf(ei)
			return
		}
	}
	p.line("} else {")
	p.ind++
	p.stmts(n.Else)
	p.ind--
	p.line("}")
}

func (p *printer) elseIf(n *If) {
	p.line("} else if " + ExprStr(n.Cond) + " {")
	p.ind++
	p.stmts(n.Then)
	p.ind--
	if n.Else == nil {
		p.line("}")
		return
	}
	if len(n.Else) == 1 {
		if ei, ok := n.Else[0].(*If); ok {
			p.elseIf(ei)
			return
		}
	}
	p.line("} else {")
	p.ind++
	p.stmts(n.Else)
	p.ind--
	p.line("}")
}

// LitStr renders an integer literal of a type. Negative values are written "-N"
// (one token); callers put spaces around binary operators.
func LitStr(l *Lit) string {
	switch l.T.K {
	case KBool:
		if l.I != 0 {
			return "true"
		}
		return "false"
	case KStr:
		return fmt.Sprintf("%q", l.S)
	}
	if !l.T.Signed {
		return fmt.Sprintf("%d", uint64(l.I))
	}
	return fmt.Sprintf("%d", l.I)
}

func prec(op string) int {
	switch op {
	case "||":
		return 1
	case "&&":
		return 2
	case "==", "!=":
		return 3
	case "<", "<=", ">", ">=":
		return 4
	case "+", "-":
		return 5
	}
	return 6
}

// ExprStr renders an expression (fully parenthesised where nested).
func ExprStr(e Expr) string {
	switch n := e.(type) {
	case *Lit:
		return LitStr(n)
	case *Var:
		return n.Name
	case *Bin:
		return sub(n.L) + " " + n.Op + " " + sub(n.R)
	case *Un:
		if n.Op == "-" {
			return "-(" + ExprStr(n.X) + ")"
		}
		return "!" + sub(n.X)
	case *Cast:
		return sub(n.X) + " as " + n.T.String()
	case *Call:
		return n.Fn.Name + "(" + args(n.Args) + ")"
	case *MCall:
		return sub(n.Recv) + "." + n.M.Name + "(" + args(n.Args) + ")"
	case *ClosureCall:
		return n.Name + "(" + args(n.Args) + ")"
	case *FieldX:
		return sub(n.X) + "." + n.Name
	case *Index:
		return sub(n.X) + "[" + ExprStr(n.I) + "]"
	case *StructLit:
		var fs []string
		for i, v := range n.Vals {
			fs = append(fs, fmt.Sprintf(".%s = %s", n.T.Fields[i].Name, ExprStr(v)))
		}
		return "{ " + strings.Join(fs, ", ") + " }"
	case *ArrLit:
		return "[" + args(n.Elems) + "]"
	case *EnumLit:
		return n.T.Name + "::" + n.T.Variants[n.V]
	case *Len:
		return "len(" + ExprStr(n.X) + ")"
	case *Borrow:
		if n.Mut {
			return "&'" + sub(n.X)
		}
		return "&" + sub(n.X)
	case *Catch:
		s := ExprStr(n.Call) + " catch "
		if n.ErrVar != "" {
			p := &printer{ind: 2}
			p.stmts(n.Handler)
			s += n.ErrVar + " {\n" + p.sb.String() + "    } "
		}
		return s + sub(n.Fallback)
	}
	return fmt.Sprintf("/*?%T*/", e)
}

func args(es []Expr) string {
	var s []string
	for _, e := range es {
		s = append(s, ExprStr(e))
	}
	return strings.Join(s, ", ")
}

// sub parenthesises compound operands.
func sub(e Expr) string {
	switch n := e.(type) {
	case *Bin, *Cast, *Catch:
		return "(" + ExprStr(e) + ")"
	case *Un:
		return "(" + ExprStr(e) + ")"
	case *Lit:
		if n.T.K == KInt && n.T.Signed && n.I < 0 {
			return "(" + LitStr(n) + ")"
		}
	}
	return ExprStr(e)
}
