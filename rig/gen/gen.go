package gen

import (
	"fmt"
	"math/rand/v2"
)

// Config selects which language features the generator may use. Features tied to open known
// findings are switched off by the caller (gates); every program records the features it used.
type Config struct {
	Off      map[string]bool // disabled features
	MainLen  int             // statements in main (default 18)
	MaxDepth int             // nesting depth of statements (default 2)
	Wasm     bool            // restrict to what the wasm back end supports
}

func (c *Config) on(f string) bool {
	if c.Off != nil && c.Off[f] {
		return false
	}
	if c.Wasm {
		switch f {
		case "closure", "result", "str.concat": // string literals, len, ==, printing work on wasm; concatenation does not
			return false
		}
	}
	return true
}

type variable struct {
	name     string
	t        *Type
	mutable  bool
	reserved bool // loop counters etc.: never assigned by random statements
}

type scope struct {
	vars []variable
}

// G is the generator state for one program.
type G struct {
	rng     *rand.Rand
	cfg     *Config
	prog    *Program
	scopes  []*scope
	n       int // name counter
	say     *Func
	structs []*Type
	enum    *Type
	pure    []*Func // pure int functions usable in expressions
	rec     *Func   // bounded recursive function (only called with small literals)
	dynLen  map[string]int
	nest    int   // block nesting depth (0 = top level of main)
	inFunc  *Func // function being generated (nil = main)
	loop    int   // loop nesting depth
	noSay   int   // >0: no side-effecting calls (inside && / ||)
	budget  int   // expression node budget per statement
}

func (g *G) use(f string) { g.prog.Features[f] = true }

func (g *G) fresh(p string) string {
	g.n++
	return fmt.Sprintf("%s%d", p, g.n)
}

func (g *G) push() { g.scopes = append(g.scopes, &scope{}) }
func (g *G) pop()  { g.scopes = g.scopes[:len(g.scopes)-1] }
func (g *G) declare(v variable) {
	s := g.scopes[len(g.scopes)-1]
	s.vars = append(s.vars, v)
}

func (g *G) varsWhere(pred func(variable) bool) []variable {
	var out []variable
	for _, s := range g.scopes {
		for _, v := range s.vars {
			if pred(v) {
				out = append(out, v)
			}
		}
	}
	return out
}

func (g *G) pick(n int) int { return g.rng.IntN(n) }
func (g *G) chance(pct int) bool {
	return g.rng.IntN(100) < pct
}

func (g *G) intType() *Type { return IntTypes[g.pick(len(IntTypes))] }

// boundary-weighted constant of an integer type
func (g *G) intConst(t *Type) int64 {
	var lo, hi int64
	if t.Signed {
		lo = -(1 << (t.Bits - 1))
		hi = 1<<(t.Bits-1) - 1
	} else {
		lo = 0
		if t.Bits == 64 {
			hi = -1 // all ones
		} else {
			hi = 1<<t.Bits - 1
		}
	}
	switch g.pick(10) {
	case 0:
		return lo
	case 1:
		return hi
	case 2:
		return Norm(t, hi-1)
	case 3:
		return Norm(t, lo+1)
	case 4:
		return 0
	case 5:
		return 1
	case 6:
		if t.Signed {
			return -1
		}
		return 2
	}
	return Norm(t, int64(g.pick(200))-100*btoi(t.Signed))
}

func btoi(b bool) int64 {
	if b {
		return 1
	}
	return 0
}

func (g *G) lit(t *Type) *Lit { return &Lit{T: t, I: g.intConst(t)} }

func (g *G) smallLit(t *Type, lo, hi int) *Lit {
	return &Lit{T: t, I: int64(lo + g.pick(hi-lo+1))}
}

// intAtom returns a typed (non-literal) integer expression of type t if one is available.
func (g *G) intAtom(t *Type) Expr {
	var cands []Expr
	for _, v := range g.varsWhere(func(v variable) bool { return true }) {
		switch {
		case v.t.Eq(t):
			cands = append(cands, &Var{v.name, v.t})
		case v.t.K == KStruct:
			for _, f := range v.t.Fields {
				if f.T.Eq(t) {
					cands = append(cands, &FieldX{X: &Var{v.name, v.t}, Name: f.Name, T: f.T})
				}
			}
		case v.t.K == KArr && v.t.Elem.Eq(t) && g.cfg.on("fixedarr"):
			k := g.pick(v.t.N)
			if g.chance(25) {
				k -= v.t.N // negative index counts from the end
			}
			cands = append(cands, &Index{X: &Var{v.name, v.t}, I: &Lit{T: I32, I: int64(k)}, T: t})
		}
	}
	if len(cands) == 0 {
		return nil
	}
	return cands[g.pick(len(cands))]
}

// intExpr generates an expression of integer type t.
func (g *G) intExpr(t *Type, depth int) Expr {
	g.budget--
	if depth <= 0 || g.budget <= 0 {
		if a := g.intAtom(t); a != nil && g.chance(70) {
			return a
		}
		return g.lit(t)
	}
	switch g.pick(12) {
	case 0, 1, 2, 3: // arithmetic; the left operand is typed so that literals adapt to it
		l := g.intAtom(t)
		if l == nil {
			l = g.intAtomOrCast(t, depth)
		} else if g.chance(40) {
			l = g.intExpr(t, depth-1)
			if _, isLit := l.(*Lit); isLit {
				l = g.intAtomOrCast(t, depth)
			}
		}
		op := []string{"+", "-", "*"}[g.pick(3)]
		return &Bin{Op: op, L: l, R: g.intExpr(t, depth-1), T: t}
	case 4: // division / remainder by a literal that is neither 0 nor -1
		l := g.intAtomOrCast(t, depth)
		d := int64(2 + g.pick(9))
		if t.Signed && g.chance(30) {
			d = -d
		}
		op := "/"
		if g.chance(40) {
			op = "%"
		}
		g.use("div")
		return &Bin{Op: op, L: l, R: &Lit{T: t, I: d}, T: t}
	case 5: // cast from another width
		if g.cfg.on("cast") {
			g.use("cast")
			return &Cast{X: g.intAtomOrLitExpr(g.castSource(t), depth-1), T: t}
		}
	case 6: // call of a pure function returning t
		if c := g.pureCall(t, depth); c != nil {
			return c
		}
	case 7: // observable evaluation order
		if t.Eq(I32) && g.noSay == 0 && g.cfg.on("order") {
			g.use("order")
			return &Call{Fn: g.say, Args: []Expr{g.smallLit(I32, 1, 99)}}
		}
	case 8:
		if t.Signed && g.cfg.on("neg") {
			if a := g.intAtom(t); a != nil {
				g.use("neg")
				return &Un{Op: "-", X: a}
			}
		}
	}
	if a := g.intAtom(t); a != nil && g.chance(75) {
		return a
	}
	return g.lit(t)
}

func (g *G) castSource(t *Type) *Type {
	for {
		s := g.intType()
		if !s.Eq(t) {
			return s
		}
	}
}

func (g *G) intAtomOrCast(t *Type, depth int) Expr {
	if a := g.intAtom(t); a != nil {
		return a
	}
	// a typed value of another width, cast to t
	for _, k := range g.rng.Perm(len(IntTypes)) {
		src := IntTypes[k]
		if src.Eq(t) {
			continue
		}
		if a := g.intAtom(src); a != nil {
			g.use("cast")
			return &Cast{X: a, T: t}
		}
	}
	if c := g.pureCall(t, depth); c != nil {
		return c
	}
	if g.noSay == 0 {
		c := &Call{Fn: g.say, Args: []Expr{g.smallLit(I32, 1, 99)}}
		if t.Eq(I32) {
			return c
		}
		g.use("cast")
		return &Cast{X: c, T: t}
	}
	return g.lit(t) // nothing typed in scope (cannot happen inside functions: they have parameters)
}

func (g *G) intAtomOrLitExpr(t *Type, depth int) Expr {
	if a := g.intAtom(t); a != nil {
		if depth > 0 && g.chance(40) {
			return &Bin{Op: "+", L: a, R: g.lit(t), T: t}
		}
		return a
	}
	return g.intAtomOrCast(t, depth)
}

func (g *G) pureCall(t *Type, depth int) Expr {
	if !g.cfg.on("call") {
		return nil
	}
	var fs []*Func
	for _, f := range g.pure {
		if f.Ret.Eq(t) && f != g.inFunc {
			fs = append(fs, f)
		}
	}
	if len(fs) == 0 {
		return nil
	}
	f := fs[g.pick(len(fs))]
	var args []Expr
	for _, p := range f.Params {
		args = append(args, g.argExpr(p.T, depth-1))
	}
	g.use("call")
	return &Call{Fn: f, Args: args}
}

// argExpr is an argument of type t. Literal arguments are fine: the parameter type is known.
func (g *G) argExpr(t *Type, depth int) Expr {
	switch t.K {
	case KInt:
		return g.intExpr(t, depth)
	case KBool:
		return g.boolExpr(depth)
	}
	return g.valueOf(t)
}

func (g *G) boolExpr(depth int) Expr {
	g.budget--
	if depth > 0 && g.budget > 0 && g.chance(30) {
		g.noSay++
		defer func() { g.noSay-- }()
		op := "&&"
		if g.chance(50) {
			op = "||"
		}
		g.use("logic")
		return &Bin{Op: op, L: g.boolExpr(depth - 1), R: g.boolExpr(depth - 1), T: TBool}
	}
	if depth > 0 && g.chance(15) {
		g.use("logic")
		return &Un{Op: "!", X: g.boolExpr(depth - 1)}
	}
	t := g.intType()
	l := g.intAtom(t)
	if l == nil {
		t = I32
		l = g.intAtomOrCast(t, depth)
	}
	op := []string{"==", "!=", "<", "<=", ">", ">="}[g.pick(6)]
	var r Expr
	if g.chance(50) {
		r = g.lit(t)
	} else {
		r = g.intExpr(t, depth-1)
	}
	g.use("cmp")
	return &Bin{Op: op, L: l, R: r, T: TBool}
}

// valueOf builds a fresh value of an aggregate type (literal).
func (g *G) valueOf(t *Type) Expr {
	switch t.K {
	case KInt:
		return g.lit(t)
	case KBool:
		return &Lit{T: TBool, I: int64(g.pick(2))}
	case KStr:
		// some non-ASCII text: the length of a string is its length in bytes on every target
		return &Lit{T: TStr, S: []string{"ab", "ferret", "", "x y", "zzz", "café crème", "naïve ☕", "日本語", "ß"}[g.pick(9)]}
	case KStruct:
		sl := &StructLit{T: t}
		for _, f := range t.Fields {
			sl.Vals = append(sl.Vals, g.valueOf(f.T))
		}
		return sl
	case KArr:
		al := &ArrLit{T: t}
		for i := 0; i < t.N; i++ {
			al.Elems = append(al.Elems, g.valueOf(t.Elem))
		}
		return al
	case KEnum:
		return &EnumLit{T: t, V: g.pick(len(t.Variants))}
	}
	panic("valueOf: unsupported type " + t.String())
}

// ---- declarations ---------------------------------------------------------------------------

func (g *G) makeTypes() {
	if g.cfg.on("struct") {
		n := 1 + g.pick(2)
		for i := 0; i < n; i++ {
			st := &Type{K: KStruct, Name: fmt.Sprintf("S%d", i)}
			nf := 2 + g.pick(3)
			for j := 0; j < nf; j++ {
				ft := g.intType()
				if j == nf-1 && i > 0 && g.cfg.on("struct.nested") && g.chance(50) {
					ft = g.structs[0]
					g.use("struct.nested")
				} else if j == nf-1 && g.cfg.on("struct.arrfield") && g.cfg.on("fixedarr") && g.chance(25) {
					ft = &Type{K: KArr, N: 2 + g.pick(2), Elem: g.intType()}
					g.use("struct.arrfield")
				}
				st.Fields = append(st.Fields, Field{Name: fmt.Sprintf("F%d", j), T: ft})
			}
			g.structs = append(g.structs, st)
			g.prog.Types = append(g.prog.Types, st)
		}
	}
	if g.cfg.on("enum") {
		g.enum = &Type{K: KEnum, Name: "Color", Variants: []string{"Red", "Green", "Blue", "Dark"}[:3+g.pick(2)]}
		g.prog.Types = append(g.prog.Types, g.enum)
	}
}

func (g *G) makeFuncs() {
	// say: prints and returns its argument (makes evaluation order observable)
	g.say = &Func{Name: "say", Params: []Param{{"k", I32}}, Ret: I32,
		Body: []Stmt{&Print{X: &Var{"k", I32}}, &Return{X: &Var{"k", I32}}}}
	g.prog.Funcs = append(g.prog.Funcs, g.say)
	if !g.cfg.on("call") {
		return
	}
	// pure arithmetic functions
	np := 1 + g.pick(3)
	for i := 0; i < np; i++ {
		f := &Func{Name: fmt.Sprintf("calc%d", i), Ret: g.intType()}
		na := 1 + g.pick(3)
		for j := 0; j < na; j++ {
			f.Params = append(f.Params, Param{fmt.Sprintf("a%d", j), g.intType()})
		}
		g.inFunc = f
		g.push()
		for _, p := range f.Params {
			g.declare(variable{name: p.Name, t: p.T, mutable: false})
		}
		save := g.cfg.Off
		// function bodies stay pure: no printing calls
		g.noSay++
		f.Body = g.funcBody(f.Ret)
		g.noSay--
		g.cfg.Off = save
		g.pop()
		g.inFunc = nil
		g.prog.Funcs = append(g.prog.Funcs, f)
		g.pure = append(g.pure, f)
	}
	if g.cfg.on("recursion") {
		// fact-like recursion at a random width: r(n) = n <= 1 ? c : n * r(n-1) + d
		t := []*Type{I32, I64, U32, U64, I16}[g.pick(5)]
		f := &Func{Name: "rec", Params: []Param{{"n", t}}, Ret: t}
		n := &Var{"n", t}
		f.Body = []Stmt{
			&If{Cond: &Bin{Op: "<=", L: n, R: &Lit{T: t, I: 1}, T: TBool}, Then: []Stmt{&Return{X: g.smallLit(t, 1, 5)}}},
			&Return{X: &Bin{Op: "+", L: &Bin{Op: "*", L: n, R: &Call{Fn: f, Args: []Expr{&Bin{Op: "-", L: n, R: &Lit{T: t, I: 1}, T: t}}}, T: t}, R: g.smallLit(t, 0, 9), T: t}},
		}
		g.prog.Funcs = append(g.prog.Funcs, f)
		g.rec = f
	}
}

// funcBody: a few lets, an optional if/else with early return, and a final return.
func (g *G) funcBody(ret *Type) []Stmt {
	var body []Stmt
	nl := g.pick(3)
	for i := 0; i < nl; i++ {
		t := g.intType()
		name := g.fresh("v")
		g.budget = 6
		body = append(body, &Let{Name: name, T: t, Init: g.intExpr(t, 2), Annot: true})
		g.declare(variable{name: name, t: t, mutable: true})
	}
	if g.chance(60) {
		g.budget = 6
		thenRet := &Return{X: g.intExpr(ret, 2)}
		iff := &If{Cond: g.boolExpr(1), Then: []Stmt{thenRet}}
		if g.chance(40) {
			g.budget = 6
			iff.Else = []Stmt{&Return{X: g.intExpr(ret, 2)}}
			body = append(body, iff)
			g.use("if")
			return body
		}
		body = append(body, iff)
		g.use("if")
	}
	g.budget = 8
	body = append(body, &Return{X: g.intExpr(ret, 2)})
	return body
}

// ---- statements -----------------------------------------------------------------------------

func (g *G) printVar(name string, t *Type) Stmt { return &Print{X: &Var{name, t}} }

func (g *G) letPrint(t *Type, e Expr) []Stmt {
	name := g.fresh("t")
	g.declare(variable{name: name, t: t, mutable: false})
	return []Stmt{&Let{Name: name, T: t, Init: e, Annot: true}, g.printVar(name, t)}
}

func (g *G) block(n, depth int) []Stmt {
	g.push()
	g.nest++
	defer func() { g.nest--; g.pop() }()
	var out []Stmt
	for i := 0; i < n; i++ {
		out = append(out, g.stmt(depth)...)
	}
	return out
}

func (g *G) mutableInts() []variable {
	return g.varsWhere(func(v variable) bool { return v.t.K == KInt && v.mutable && !v.reserved })
}

func (g *G) stmt(depth int) []Stmt {
	g.budget = 10
	for tries := 0; tries < 20; tries++ {
		if s := g.tryStmt(depth); s != nil {
			return s
		}
	}
	t := g.intType()
	return g.letPrint(t, g.intExpr(t, 1))
}

func (g *G) tryStmt(depth int) []Stmt {
	switch g.pick(30) {
	case 0, 1, 2, 3: // new integer variable
		t := g.intType()
		name := g.fresh("x")
		e := g.intExpr(t, 2)
		g.declare(variable{name: name, t: t, mutable: true})
		g.use("let")
		return []Stmt{&Let{Name: name, T: t, Init: e, Annot: true}}
	case 4, 5: // print an expression through a fresh local
		t := g.intType()
		g.use("print")
		return g.letPrint(t, g.intExpr(t, 3))
	case 6, 7: // assignment / compound assignment
		vs := g.mutableInts()
		if len(vs) == 0 {
			return nil
		}
		v := vs[g.pick(len(vs))]
		op := []string{"=", "=", "+=", "-=", "*="}[g.pick(5)]
		if op != "=" && !g.cfg.on("compound") {
			op = "="
		}
		if op != "=" {
			g.use("compound")
		}
		g.use("assign")
		return []Stmt{&Assign{LHS: &Var{v.name, v.t}, Op: op, RHS: g.intExpr(v.t, 2)}, g.printVar(v.name, v.t)}
	case 8: // ++ / --
		vs := g.mutableInts()
		if len(vs) == 0 || !g.cfg.on("incdec") {
			return nil
		}
		v := vs[g.pick(len(vs))]
		g.use("incdec")
		return []Stmt{&IncDec{X: &Var{v.name, v.t}, Inc: g.chance(50)}, g.printVar(v.name, v.t)}
	case 9, 10: // if / else if / else
		if depth <= 0 || !g.cfg.on("if") {
			return nil
		}
		g.use("if")
		iff := &If{Cond: g.boolExpr(2), Then: g.block(1+g.pick(2), depth-1)}
		if g.chance(60) {
			if g.chance(30) {
				g.budget = 8
				iff.Else = []Stmt{&If{Cond: g.boolExpr(1), Then: g.block(1, depth-1), Else: g.block(1, depth-1)}}
				g.use("elseif")
			} else {
				iff.Else = g.block(1+g.pick(2), depth-1)
			}
		}
		return []Stmt{iff}
	case 11: // while with a dedicated counter
		if depth <= 0 || !g.cfg.on("while") || g.loop > 0 {
			return nil
		}
		return g.whileLoop(depth)
	case 12: // for over a typed range
		if depth <= 0 || !g.cfg.on("for.range") || g.loop > 0 {
			return nil
		}
		return g.forRange(depth)
	case 13, 14:
		if len(g.structs) == 0 {
			return nil
		}
		return g.structStmt(depth)
	case 15, 16:
		if !g.cfg.on("fixedarr") {
			return nil
		}
		return g.arrStmt()
	case 17, 18:
		if !g.cfg.on("dynarr") || g.inFunc != nil {
			return nil
		}
		return g.dynStmt(depth)
	case 19:
		if g.enum == nil || !g.cfg.on("match") {
			return nil
		}
		return g.enumMatch(depth)
	case 20:
		if !g.cfg.on("match") || depth <= 0 {
			return nil
		}
		return g.intMatch(depth)
	case 21:
		if !g.cfg.on("ref") {
			return nil
		}
		return g.refStmt()
	case 22:
		if !g.cfg.on("closure") || g.inFunc != nil {
			return nil
		}
		if g.loop > 0 && !g.cfg.on("closure.nested") {
			return nil
		}
		return g.closureStmt()
	case 23:
		if !g.cfg.on("result") {
			return nil
		}
		return g.resultStmt()
	case 24:
		if !g.cfg.on("order") || !g.cfg.on("call") {
			return nil
		}
		return g.orderStmt()
	case 25:
		if !g.cfg.on("str") {
			return nil
		}
		return g.strStmt()
	case 26:
		if !g.cfg.on("recursion") {
			return nil
		}
		if f := g.rec; f != nil {
			g.use("recursion")
			return g.letPrint(f.Ret, &Call{Fn: f, Args: []Expr{g.smallLit(f.Params[0].T, 0, 12)}})
		}
		return nil
	case 27:
		if g.loop == 0 || !g.cfg.on("breakcontinue") {
			return nil
		}
		g.use("breakcontinue")
		var s Stmt = &Break{}
		if g.chance(50) {
			s = &Continue{}
		}
		return []Stmt{&If{Cond: g.boolExpr(1), Then: []Stmt{s}}}
	case 28:
		if !g.cfg.on("const") {
			return nil
		}
		t := g.intType()
		name := g.fresh("K")
		g.declare(variable{name: name, t: t})
		g.use("const")
		return []Stmt{&Let{Name: name, T: t, Init: g.lit(t), Const: true}, g.printVar(name, t)}
	}
	return nil
}

func (g *G) whileLoop(depth int) []Stmt {
	cn := g.fresh("it")
	ct := []*Type{I32, I64, U8, U32}[g.pick(4)]
	g.declare(variable{name: cn, t: ct, mutable: true, reserved: true})
	limit := int64(2 + g.pick(5))
	cv := &Var{cn, ct}
	g.loop++
	g.push()
	// the increment comes first so that `continue` cannot skip it
	body := []Stmt{&Assign{LHS: cv, Op: "=", RHS: &Bin{Op: "+", L: cv, R: &Lit{T: ct, I: 1}, T: ct}}}
	n := 1 + g.pick(3)
	for i := 0; i < n; i++ {
		body = append(body, g.stmt(depth-1)...)
	}
	g.pop()
	g.loop--
	g.use("while")
	return []Stmt{
		&Let{Name: cn, T: ct, Init: &Lit{T: ct, I: 0}, Annot: true},
		&While{Cond: &Bin{Op: "<", L: cv, R: &Lit{T: ct, I: limit}, T: TBool}, Body: body},
		g.printVar(cn, ct),
	}
}

// steppedRange is `for v in a..b:s` (or ..=) with a literal, let-bound or negative step, small and
// large spans (|b-a| and |b-a|*|s| beyond half the type's range for 32/64-bit types); the last
// increment never leaves the type's range.
func (g *G) steppedRange(depth int) []Stmt {
	t := []*Type{I32, I64, I16, I8, U32, U8, I32, I64}[g.pick(8)]
	n := int64(1 + g.pick(5)) // iterations
	var max, min int64
	if t.Signed {
		max = int64(1)<<(t.Bits-1) - 1
		min = -max - 1
	} else if t.Bits == 64 {
		max, min = int64(1)<<62, 0
	} else {
		max, min = int64(1)<<t.Bits-1, 0
	}
	var step int64
	switch g.pick(3) {
	case 0:
		step = int64(1 + g.pick(7))
	case 1:
		step = (max/2 - min/2) / (n + 1) / int64(1+g.pick(3)) // large: n*step is a sizeable part of the range
		if step == 0 {
			step = 1
		}
	default:
		step = int64(1+g.pick(9)) * 10
		if step*(n+1) > max/2-min/2 {
			step = 1 + int64(g.pick(3))
		}
	}
	down := t.Signed && g.chance(45)
	var start int64
	span := step * n
	if down {
		start = max - int64(g.pick(50))
		if g.chance(50) {
			start = span/2 + int64(g.pick(5))
		}
		if start-span-step < min {
			start = min + span + step
		}
		step = -step
	} else {
		start = min + int64(g.pick(50))
		if t.Signed && g.chance(50) {
			start = -span/2 - int64(g.pick(5))
		}
		if start+span+step > max {
			start = max - span - step
		}
	}
	incl := g.chance(40)
	// end: the loop visits start, start+step, ..., start+(n-1)*step
	end := start + step*(n-1)
	if incl {
		if g.chance(50) && step != 1 && step != -1 { // end strictly between the last value and the next
			if step > 0 {
				end += 1 + int64(g.pick(int(min64(step-1, 3))))
			} else {
				end -= 1 + int64(g.pick(int(min64(-step-1, 3))))
			}
		}
	} else {
		if step > 0 {
			end += 1 + int64(g.pick(int(min64(step, 3))))
		} else {
			end -= 1 + int64(g.pick(int(min64(-step, 3))))
		}
	}
	var pre []Stmt
	// a literal bound is typed by the compiler on its own (default i32): start and end are literals
	// only for i32 loops, otherwise typed locals or calls, so that the loop variable has type t;
	// the step is typed by the element type and may always be a literal
	operand := func(prefix string, v int64) Expr {
		if (prefix == "st" || t == I32) && g.chance(40) {
			return &Lit{T: t, I: v}
		}
		if g.cfg.on("call") && g.chance(40) { // opaque: the value (and the step's sign) is only known at run time
			f := &Func{Name: g.fresh("rb"), Ret: t, Body: []Stmt{&Return{X: &Lit{T: t, I: v}}}}
			g.prog.Funcs = append(g.prog.Funcs, f)
			return &Call{Fn: f}
		}
		name := g.fresh(prefix)
		g.declare(variable{name: name, t: t})
		pre = append(pre, &Let{Name: name, T: t, Init: &Lit{T: t, I: v}, Annot: true})
		return &Var{name, t}
	}
	lo := operand("lo", start)
	hi := operand("hi", end)
	st := operand("st", step)
	v := g.fresh("q")
	g.loop++
	g.push()
	g.declare(variable{name: v, t: t})
	var body []Stmt
	if g.chance(50) {
		body = append(body, g.stmt(depth-1)...)
	}
	body = append(body, g.printVar(v, t))
	g.pop()
	g.loop--
	g.use("for.range.step")
	return append(pre, &ForRange{Var: v, T: t, Lo: lo, Hi: hi, Step: st, Incl: incl, Body: body})
}

func min64(a, b int64) int64 {
	if a < b {
		return a
	}
	return b
}

func (g *G) forRange(depth int) []Stmt {
	if g.cfg.on("for.range.step") && g.chance(35) {
		return g.steppedRange(depth)
	}
	t := []*Type{I32, I64, U8, I16, U32}[g.pick(5)]
	lo, hi := g.fresh("lo"), g.fresh("hi")
	lov := int64(g.pick(4))
	if t.Signed && g.chance(40) {
		lov = -int64(g.pick(3))
	}
	hiv := lov + int64(g.pick(6))
	g.declare(variable{name: lo, t: t})
	g.declare(variable{name: hi, t: t})
	v := g.fresh("q")
	g.loop++
	g.push()
	g.declare(variable{name: v, t: t})
	var body []Stmt
	n := 1 + g.pick(2)
	for i := 0; i < n; i++ {
		body = append(body, g.stmt(depth-1)...)
	}
	body = append(body, g.printVar(v, t))
	g.pop()
	g.loop--
	g.use("for.range")
	return []Stmt{
		&Let{Name: lo, T: t, Init: &Lit{T: t, I: lov}, Annot: true},
		&Let{Name: hi, T: t, Init: &Lit{T: t, I: hiv}, Annot: true},
		&ForRange{Var: v, T: t, Lo: &Var{lo, t}, Hi: &Var{hi, t}, Incl: g.chance(40), Body: body},
	}
}

func (g *G) structVars() []variable {
	return g.varsWhere(func(v variable) bool { return v.t.K == KStruct })
}

func (g *G) printLeaves(e Expr) []Stmt {
	var out []Stmt
	t := e.Ty()
	switch t.K {
	case KInt:
		name := g.fresh("p")
		out = append(out, &Let{Name: name, T: t, Init: e, Annot: true}, &Print{X: &Var{name, t}})
	case KStruct:
		for _, f := range t.Fields {
			out = append(out, g.printLeaves(&FieldX{X: e, Name: f.Name, T: f.T})...)
		}
	case KArr:
		for i := 0; i < t.N; i++ {
			out = append(out, g.printLeaves(&Index{X: e, I: &Lit{T: I32, I: int64(i)}, T: t.Elem})...)
		}
	}
	return out
}

// intLeaf picks a random integer leaf place inside an aggregate variable.
func (g *G) intLeaf(e Expr) Expr {
	t := e.Ty()
	switch t.K {
	case KInt:
		return e
	case KStruct:
		f := t.Fields[g.pick(len(t.Fields))]
		return g.intLeaf(&FieldX{X: e, Name: f.Name, T: f.T})
	case KArr:
		return g.intLeaf(&Index{X: e, I: &Lit{T: I32, I: int64(g.pick(t.N))}, T: t.Elem})
	}
	return nil
}

func (g *G) structStmt(depth int) []Stmt {
	vs := g.structVars()
	if len(vs) == 0 || g.chance(30) {
		st := g.structs[g.pick(len(g.structs))]
		name := g.fresh("s")
		g.declare(variable{name: name, t: st, mutable: true})
		g.use("struct")
		return append([]Stmt{&Let{Name: name, T: st, Init: g.valueOf(st), Annot: true}}, g.printLeaves(&Var{name, st})...)
	}
	v := vs[g.pick(len(vs))]
	switch g.pick(4) {
	case 0: // field write, then print everything (other fields must be intact)
		if !v.mutable {
			return nil
		}
		leaf := g.intLeaf(&Var{v.name, v.t})
		g.use("struct.fieldwrite")
		return append([]Stmt{&Assign{LHS: leaf, Op: "=", RHS: g.intExpr(leaf.Ty(), 2)}}, g.printLeaves(&Var{v.name, v.t})...)
	case 1: // copy, mutate the copy, print both: by-value semantics
		if !g.cfg.on("struct.copy") {
			return nil
		}
		name := g.fresh("c")
		g.declare(variable{name: name, t: v.t, mutable: true})
		leaf := g.intLeaf(&Var{name, v.t})
		g.use("struct.copy")
		out := []Stmt{&Let{Name: name, T: v.t, Init: &Var{v.name, v.t}, Annot: g.chance(50)},
			&Assign{LHS: leaf, Op: "=", RHS: g.intExpr(leaf.Ty(), 1)}}
		out = append(out, g.printLeaves(&Var{name, v.t})...)
		return append(out, g.printLeaves(&Var{v.name, v.t})...)
	case 2: // pass by value to a function that modifies its copy
		if !g.cfg.on("struct.byval") || !g.cfg.on("call") {
			return nil
		}
		f := g.byValFunc(v.t)
		g.use("struct.byval")
		out := g.letPrint(f.Ret, &Call{Fn: f, Args: []Expr{&Var{v.name, v.t}}})
		return append(out, g.printLeaves(&Var{v.name, v.t})...)
	default: // methods
		if !g.cfg.on("method") {
			return nil
		}
		return g.methodStmt(v)
	}
}

func (g *G) funcNamed(name string) *Func {
	for _, f := range g.prog.Funcs {
		if f.Name == name && f.Recv == nil {
			return f
		}
	}
	return nil
}

// byValFunc: fn modS0(p: S0) -> T { p.F = p.F + c; return p.F; }
func (g *G) byValFunc(st *Type) *Func {
	name := "mod" + st.Name
	if f := g.funcNamed(name); f != nil {
		return f
	}
	p := &Var{"p", st}
	leaf := g.intLeaf(p)
	lt := leaf.Ty()
	f := &Func{Name: name, Params: []Param{{"p", st}}, Ret: lt, Body: []Stmt{
		&Assign{LHS: leaf, Op: "=", RHS: &Bin{Op: "+", L: leaf, R: g.smallLit(lt, 1, 9), T: lt}},
		&Return{X: leaf},
	}}
	g.prog.Funcs = append(g.prog.Funcs, f)
	return f
}

func (g *G) method(st *Type, kind string) *Func {
	name := kind
	for _, f := range g.prog.Funcs {
		if f.Recv != nil && f.Name == name && (f.Recv.T.Eq(st) || f.Recv.T.K == KRef && f.Recv.T.Elem.Eq(st)) {
			return f
		}
	}
	self := &Var{"self", st}
	leaf := g.intLeaf(self)
	lt := leaf.Ty()
	var f *Func
	switch kind {
	case "get": // value receiver
		f = &Func{Name: name, Recv: &Param{"self", st}, Ret: lt, Body: []Stmt{&Return{X: &Bin{Op: "+", L: leaf, R: g.smallLit(lt, 0, 9), T: lt}}}}
	case "peek": // shared reference receiver
		rt := &Type{K: KRef, Elem: st}
		f = &Func{Name: name, Recv: &Param{"self", rt}, Ret: lt, Body: []Stmt{&Return{X: rebase(leaf, &Var{"self", rt})}}}
	default: // "bump": mutable reference receiver
		rt := &Type{K: KRef, Elem: st, Mut: true}
		rl := rebase(leaf, &Var{"self", rt})
		f = &Func{Name: name, Recv: &Param{"self", rt}, Params: []Param{{"d", lt}}, Ret: TVoid, Body: []Stmt{
			&Assign{LHS: rl, Op: "=", RHS: &Bin{Op: "+", L: rl, R: &Var{"d", lt}, T: lt}},
		}}
	}
	g.prog.Funcs = append(g.prog.Funcs, f)
	return f
}

// rebase replaces the root variable of a place expression.
func rebase(e Expr, root Expr) Expr {
	switch n := e.(type) {
	case *Var:
		return root
	case *FieldX:
		return &FieldX{X: rebase(n.X, root), Name: n.Name, T: n.T}
	case *Index:
		return &Index{X: rebase(n.X, root), I: n.I, T: n.T}
	}
	return e
}

func (g *G) methodStmt(v variable) []Stmt {
	recv := &Var{v.name, v.t}
	switch g.pick(3) {
	case 0:
		m := g.method(v.t, "get")
		g.use("method.value")
		return g.letPrint(m.Ret, &MCall{Recv: recv, M: m})
	case 1:
		m := g.method(v.t, "peek")
		g.use("method.ref")
		return g.letPrint(m.Ret, &MCall{Recv: recv, M: m})
	default:
		if !v.mutable {
			return nil
		}
		m := g.method(v.t, "bump")
		g.use("method.mutref")
		out := []Stmt{&ExprStmt{X: &MCall{Recv: recv, M: m, Args: []Expr{g.lit(m.Params[0].T)}}}}
		return append(out, g.printLeaves(recv)...)
	}
}

func (g *G) arrVars() []variable {
	return g.varsWhere(func(v variable) bool { return v.t.K == KArr })
}

func (g *G) arrStmt() []Stmt {
	vs := g.arrVars()
	if len(vs) == 0 || g.chance(30) {
		et := g.intType()
		if len(g.structs) > 0 && g.cfg.on("fixedarr.ofstruct") && g.chance(20) {
			et = g.structs[0]
			g.use("fixedarr.ofstruct")
		}
		at := &Type{K: KArr, N: 1 + g.pick(5), Elem: et}
		name := g.fresh("a")
		g.declare(variable{name: name, t: at, mutable: true})
		g.use("fixedarr")
		return append([]Stmt{&Let{Name: name, T: at, Init: g.valueOf(at), Annot: true}}, g.printLeaves(&Var{name, at})...)
	}
	v := vs[g.pick(len(vs))]
	switch g.pick(3) {
	case 0: // element store (constant index, possibly negative), then print all
		if !v.mutable || !g.cfg.on("fixedarr.store") {
			return nil
		}
		k := g.pick(v.t.N)
		if g.chance(30) {
			k -= v.t.N
		}
		el := &Index{X: &Var{v.name, v.t}, I: &Lit{T: I32, I: int64(k)}, T: v.t.Elem}
		leaf := g.intLeaf(el)
		g.use("fixedarr.store")
		return append([]Stmt{&Assign{LHS: leaf, Op: "=", RHS: g.intExpr(leaf.Ty(), 2)}}, g.printLeaves(&Var{v.name, v.t})...)
	case 1: // copy semantics
		if !g.cfg.on("fixedarr.copy") {
			return nil
		}
		name := g.fresh("b")
		g.declare(variable{name: name, t: v.t, mutable: true})
		leaf := g.intLeaf(&Var{name, v.t})
		g.use("fixedarr.copy")
		out := []Stmt{&Let{Name: name, T: v.t, Init: &Var{v.name, v.t}, Annot: g.chance(50)}, &Assign{LHS: leaf, Op: "=", RHS: g.intExpr(leaf.Ty(), 1)}}
		out = append(out, g.printLeaves(&Var{name, v.t})...)
		return append(out, g.printLeaves(&Var{v.name, v.t})...)
	default:
		return g.printLeaves(&Var{v.name, v.t})
	}
}

func (g *G) dynVars() []variable {
	return g.varsWhere(func(v variable) bool { return v.t.K == KDyn })
}

func (g *G) dynStmt(depth int) []Stmt {
	vs := g.dynVars()
	top := g.nest == 0 && g.loop == 0
	if len(vs) == 0 || (top && g.chance(20)) {
		if !top {
			return nil
		}
		et := []*Type{I32, I64, U8, I16, U64}[g.pick(5)]
		dt := &Type{K: KDyn, Elem: et}
		name := g.fresh("d")
		g.declare(variable{name: name, t: dt, mutable: true})
		al := &ArrLit{T: dt}
		n := 1 + g.pick(5)
		for i := 0; i < n; i++ {
			al.Elems = append(al.Elems, g.lit(et))
		}
		g.dynLen[name] = n
		g.use("dynarr")
		return []Stmt{&Let{Name: name, T: dt, Init: al, Annot: true}}
	}
	v := vs[g.pick(len(vs))]
	n := g.dynLen[v.name]
	dv := &Var{v.name, v.t}
	et := v.t.Elem
	idx := func() Expr { // an index valid for the current length (negative counts from the end)
		k := g.pick(n)
		if g.chance(30) {
			k -= n
		}
		return &Lit{T: I32, I: int64(k)}
	}
	switch g.pick(6) {
	case 0: // append (top level only, so that the length stays statically known)
		if !top {
			return nil
		}
		g.dynLen[v.name] = n + 1
		g.use("dynarr.append")
		val := g.intExpr(et, 1)
		ln := g.fresh("n")
		g.declare(variable{name: ln, t: I32})
		return []Stmt{&Append{Arr: dv, Val: val}, &Let{Name: ln, T: I32, Init: &Len{X: dv}, Annot: true}, g.printVar(ln, I32)}
	case 1: // read
		g.use("dynarr.get")
		return g.letPrint(et, &Index{X: dv, I: idx(), T: et})
	case 2: // write then read back
		g.use("dynarr.set")
		i := idx()
		return append([]Stmt{&Assign{LHS: &Index{X: dv, I: i, T: et}, Op: "=", RHS: g.intExpr(et, 1)}}, g.letPrint(et, &Index{X: dv, I: i, T: et})...)
	case 3: // iterate values
		if g.loop > 0 || depth <= 0 {
			return nil
		}
		val := g.fresh("v")
		g.use("dynarr.for")
		return []Stmt{&ForDyn{Val: val, Arr: dv, Body: []Stmt{&Print{X: &Var{val, et}}}}}
	case 4: // iterate with index
		if g.loop > 0 || depth <= 0 {
			return nil
		}
		val, ix := g.fresh("v"), g.fresh("k")
		g.use("dynarr.for2")
		return []Stmt{&ForDyn{Idx: ix, Val: val, Arr: dv, Body: []Stmt{&Print{X: &Var{ix, I32}}, &Print{X: &Var{val, et}}}}}
	default: // index held in a variable
		g.use("dynarr.varindex")
		in := g.fresh("ix")
		g.declare(variable{name: in, t: I32})
		return append([]Stmt{&Let{Name: in, T: I32, Init: idx(), Annot: true}}, g.letPrint(et, &Index{X: dv, I: &Var{in, I32}, T: et})...)
	}
}

func (g *G) enumMatch(depth int) []Stmt {
	name := g.fresh("e")
	g.declare(variable{name: name, t: g.enum})
	out := []Stmt{&Let{Name: name, T: g.enum, Init: &EnumLit{T: g.enum, V: g.pick(len(g.enum.Variants))}, Annot: g.chance(50)}}
	m := &Match{Subj: &Var{name, g.enum}, HasDef: true}
	for i := range g.enum.Variants {
		if g.chance(70) {
			m.Arms = append(m.Arms, MatchArm{Pat: &EnumLit{T: g.enum, V: i}, Body: g.block(1, depth-1)})
		}
	}
	m.Default = g.block(1, depth-1)
	g.use("enum.match")
	ci := g.fresh("t")
	g.declare(variable{name: ci, t: I32})
	out = append(out, m, &Let{Name: ci, T: I32, Init: &Cast{X: &Var{name, g.enum}, T: I32}, Annot: true}, g.printVar(ci, I32))
	return out
}

func (g *G) intMatch(depth int) []Stmt {
	t := []*Type{I32, I64, U8}[g.pick(3)]
	subj := g.intAtom(t)
	if subj == nil {
		return nil
	}
	m := &Match{Subj: subj, HasDef: true}
	seen := map[int64]bool{}
	n := 1 + g.pick(3)
	for i := 0; i < n; i++ {
		k := int64(g.pick(4))
		if seen[k] {
			continue
		}
		seen[k] = true
		m.Arms = append(m.Arms, MatchArm{Pat: &Lit{T: t, I: k}, Body: g.block(1, depth-1)})
	}
	m.Default = g.block(1, depth-1)
	g.use("int.match")
	return []Stmt{m}
}

// refStmt: a mutable reference to an integer local, written through, then the referent printed;
// or a call of a function taking &'T.
func (g *G) refStmt() []Stmt {
	vs := g.mutableInts()
	if len(vs) == 0 {
		return nil
	}
	v := vs[g.pick(len(vs))]
	if g.chance(50) {
		rn := g.fresh("r")
		rt := &Type{K: KRef, Elem: v.t, Mut: true}
		g.use("ref.local")
		return []Stmt{
			&Let{Name: rn, T: rt, Init: &Borrow{Mut: true, X: &Var{v.name, v.t}}, Annot: true},
			&Assign{LHS: &Var{rn, rt}, Op: "=", RHS: g.lit(v.t)},
			g.printVar(v.name, v.t),
		}
	}
	if !g.cfg.on("call") {
		return nil
	}
	name := "setv_" + v.t.String()
	f := g.funcNamed(name)
	if f == nil {
		rt := &Type{K: KRef, Elem: v.t, Mut: true}
		// fn setv(r: &'T, d: T) { let cur: T = r; r = cur + d; }
		f = &Func{Name: name, Params: []Param{{"r", rt}, {"d", v.t}}, Ret: TVoid, Body: []Stmt{
			&Let{Name: "cur", T: v.t, Init: &Var{"r", rt}, Annot: true},
			&Assign{LHS: &Var{"r", rt}, Op: "=", RHS: &Bin{Op: "+", L: &Var{"cur", v.t}, R: &Var{"d", v.t}, T: v.t}},
		}}
		g.prog.Funcs = append(g.prog.Funcs, f)
	}
	g.use("ref.param")
	return []Stmt{&ExprStmt{X: &Call{Fn: f, Args: []Expr{&Borrow{Mut: true, X: &Var{v.name, v.t}}, g.lit(v.t)}}}, g.printVar(v.name, v.t)}
}

// closureStmt: a closure capturing (by reference) a counter variable: a dedicated one or a mutable
// integer local of an enclosing block that the rest of the program keeps using; at the top level
// of main, in nested blocks and in loop bodies.
func (g *G) closureStmt() []Stmt {
	nested := g.nest > 0 || g.loop > 0
	if nested && !g.cfg.on("closure.nested") {
		return nil
	}
	t := g.intType()
	// the captured variable: a fresh one, or (in a nested block) a mutable integer local of an
	// enclosing block, which the rest of the program keeps reading and writing
	vn := g.fresh("cap")
	var pre []Stmt
	reuse := false
	if g.cfg.on("closure.captured-var-reuse") && g.chance(50) {
		if cands := g.varsWhere(func(v variable) bool { return v.t.K == KInt && v.mutable && !v.reserved }); len(cands) > 0 {
			c := cands[g.pick(len(cands))]
			vn, t, reuse = c.name, c.t, true
		}
	}
	if !reuse {
		g.declare(variable{name: vn, t: t, mutable: true, reserved: !g.cfg.on("closure.captured-var-reuse")})
		pre = []Stmt{&Let{Name: vn, T: t, Init: g.lit(t), Annot: true}}
	}
	if nested {
		g.use("closure.nested")
	}
	if reuse {
		g.use("closure.captured-var-reuse")
	}
	cn := g.fresh("cl")
	c := &Closure{Params: []Param{{"y", t}}, Ret: t, Body: []Stmt{
		&Assign{LHS: &Var{vn, t}, Op: "=", RHS: &Bin{Op: "+", L: &Var{vn, t}, R: &Lit{T: t, I: 1}, T: t}},
		&Return{X: &Bin{Op: "+", L: &Var{"y", t}, R: &Var{vn, t}, T: t}},
	}}
	g.use("closure")
	out := append(pre, &LetClosure{Name: cn, C: c})
	n := 1 + g.pick(2)
	for i := 0; i < n; i++ {
		out = append(out, g.letPrint(t, &ClosureCall{Name: cn, C: c, Args: []Expr{g.lit(t)}})...)
	}
	return append(out, g.printVar(vn, t))
}

func (g *G) resultStmt() []Stmt {
	if !g.cfg.on("call") {
		return nil
	}
	t := []*Type{I32, I64}[g.pick(2)]
	name := "safe_" + t.String()
	f := g.funcNamed(name)
	if f == nil {
		a, b := &Var{"a", t}, &Var{"b", t}
		f = &Func{Name: name, Params: []Param{{"a", t}, {"b", t}}, Ret: t, ErrStr: true, Body: []Stmt{
			&If{Cond: &Bin{Op: "==", L: b, R: &Lit{T: t, I: 0}, T: TBool}, Then: []Stmt{&ReturnErr{Msg: "zero divisor"}}},
			&If{Cond: &Bin{Op: "<", L: b, R: &Lit{T: t, I: 0}, T: TBool}, Then: []Stmt{&ReturnErr{Msg: "negative divisor"}}},
			&Return{X: &Bin{Op: "/", L: a, R: b, T: t}},
		}}
		g.prog.Funcs = append(g.prog.Funcs, f)
	}
	div := &Lit{T: t, I: int64(g.pick(4)) - 1} // -1, 0, 1, 2
	call := &Call{Fn: f, Args: []Expr{g.lit(t), div}}
	ct := &Catch{Call: call, Fallback: g.smallLit(t, -9, 9)}
	if g.chance(50) {
		ct.ErrVar = g.fresh("err")
		ct.Handler = []Stmt{&Print{X: &Var{ct.ErrVar, TStr}}}
		g.use("result.handler")
	}
	g.use("result")
	return g.letPrint(t, ct)
}

func (g *G) orderStmt() []Stmt {
	name := "three"
	f := g.funcNamed(name)
	if f == nil {
		a, b, c := &Var{"a", I32}, &Var{"b", I32}, &Var{"c", I32}
		f = &Func{Name: name, Params: []Param{{"a", I32}, {"b", I32}, {"c", I32}}, Ret: I32, Body: []Stmt{
			&Return{X: &Bin{Op: "+", L: &Bin{Op: "+", L: &Bin{Op: "*", L: a, R: &Lit{T: I32, I: 100}, T: I32}, R: &Bin{Op: "*", L: b, R: &Lit{T: I32, I: 10}, T: I32}, T: I32}, R: c, T: I32}},
		}}
		g.prog.Funcs = append(g.prog.Funcs, f)
	}
	sayc := func() Expr { return &Call{Fn: g.say, Args: []Expr{g.smallLit(I32, 1, 9)}} }
	g.use("order")
	if g.chance(50) {
		return g.letPrint(I32, &Call{Fn: f, Args: []Expr{sayc(), sayc(), sayc()}})
	}
	return g.letPrint(I32, &Bin{Op: "+", L: sayc(), R: &Bin{Op: "*", L: sayc(), R: sayc(), T: I32}, T: I32})
}

func (g *G) strStmt() []Stmt {
	name := g.fresh("w")
	g.declare(variable{name: name, t: TStr})
	lit := g.valueOf(TStr)
	out := []Stmt{&Let{Name: name, T: TStr, Init: lit}, g.printVar(name, TStr)}
	g.use("str")
	ln := g.fresh("n")
	g.declare(variable{name: ln, t: I32})
	out = append(out, &Let{Name: ln, T: I32, Init: &Len{X: &Var{name, TStr}}, Annot: true}, g.printVar(ln, I32))
	if g.cfg.on("str.concat") && g.chance(60) {
		cn := g.fresh("w")
		g.declare(variable{name: cn, t: TStr})
		g.use("str.concat")
		out = append(out, &Let{Name: cn, T: TStr, Init: &Bin{Op: "+", L: &Var{name, TStr}, R: g.valueOf(TStr), T: TStr}}, g.printVar(cn, TStr))
	}
	eq := g.fresh("t")
	g.declare(variable{name: eq, t: TBool})
	out = append(out, &Let{Name: eq, T: TBool, Init: &Bin{Op: "==", L: &Var{name, TStr}, R: g.valueOf(TStr), T: TBool}, Annot: true}, g.printVar(eq, TBool))
	return out
}

// Generate builds one random program.
func Generate(rng *rand.Rand, cfg *Config) *Program {
	if cfg == nil {
		cfg = &Config{}
	}
	g := &G{rng: rng, cfg: cfg, prog: &Program{Features: map[string]bool{}}, dynLen: map[string]int{}}
	g.makeTypes()
	g.makeFuncs()
	n := cfg.MainLen
	if n == 0 {
		n = 18
	}
	d := cfg.MaxDepth
	if d == 0 {
		d = 2
	}
	g.push()
	for i := 0; i < n; i++ {
		g.prog.Main = append(g.prog.Main, g.stmt(d)...)
	}
	g.pop()
	return g.prog
}
