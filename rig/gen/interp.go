package gen

import (
	"fmt"
	"strconv"
)

// Reference interpreter: executes the mini-AST with the semantics the properties state —
// fixed-width two's-complement wrap at the declared width, truncating / and %, strict
// left-to-right evaluation of operands and arguments, by-value copy of structs and fixed
// arrays on let / assignment / argument passing / return, write-through references,
// closures capturing variables by reference, results with catch, first-arm-wins match,
// dynamic arrays as growable lists with negative-index normalisation and an
// "index out of bounds" panic.

// Value is an interpreter value: int64 (bit pattern normalised to the static type), bool,
// string, []Value (struct or fixed array), *Dyn, *Ref.
type Value interface{}

// Dyn is a dynamic array (reference semantics, like the runtime handle).
type Dyn struct{ Elems []Value }

// Ref is a reference to a place.
type Ref struct{ P Place }

// Place is an assignable location.
type Place interface {
	Load() Value
	Store(Value)
}

type cell struct{ v Value }

func (c *cell) Load() Value   { return c.v }
func (c *cell) Store(v Value) { c.v = v }

type elemPlace struct {
	parent Place
	idx    int
}

func (e elemPlace) Load() Value   { return e.parent.Load().([]Value)[e.idx] }
func (e elemPlace) Store(v Value) { e.parent.Load().([]Value)[e.idx] = v }

type dynPlace struct {
	d   *Dyn
	idx int
}

func (e dynPlace) Load() Value   { return e.d.Elems[e.idx] }
func (e dynPlace) Store(v Value) { e.d.Elems[e.idx] = v }

// Outcome of running a program.
type Outcome struct {
	Lines    []string
	Panic    string // "" = normal exit
	FellOff  string // name of a non-void function that reached its end without return
	Timeout  bool   // step budget exhausted (generator bug)
	Internal string // interpreter error (generator bug)
}

type ferretPanic struct{ msg string }
type fellOff struct{ fn string }
type budget struct{}
type internalErr struct{ msg string }

type ctl int

const (
	ctlNone ctl = iota
	ctlBreak
	ctlContinue
	ctlReturn
)

type frame struct {
	vars   map[string]*cell
	parent *frame // lexical parent (blocks and closures)
}

func (f *frame) lookup(name string) *cell {
	for x := f; x != nil; x = x.parent {
		if c, ok := x.vars[name]; ok {
			return c
		}
	}
	return nil
}

// Interp runs programs.
type Interp struct {
	out      []string
	steps    int
	MaxSteps int
	retVal   Value
	retErr   *string
	closures map[string]closureVal
}

type closureVal struct {
	c   *Closure
	env *frame
}

// Run executes the program.
func Run(p *Program) (o Outcome) {
	in := &Interp{MaxSteps: 2_000_000}
	defer func() {
		o.Lines = in.out
		if r := recover(); r != nil {
			switch x := r.(type) {
			case ferretPanic:
				o.Panic = x.msg
			case fellOff:
				o.FellOff = x.fn
			case budget:
				o.Timeout = true
			case internalErr:
				o.Internal = x.msg
			default:
				o.Internal = fmt.Sprint(r)
			}
		}
	}()
	fr := &frame{vars: map[string]*cell{}}
	in.block(p.Main, fr)
	return
}

func (in *Interp) tick() {
	in.steps++
	if in.steps > in.MaxSteps {
		panic(budget{})
	}
}

// Norm wraps v to the width of t.
func Norm(t *Type, v int64) int64 {
	if t.K != KInt || t.Bits >= 64 {
		return v
	}
	sh := uint(64 - t.Bits)
	if t.Signed {
		return v << sh >> sh
	}
	return int64(uint64(v) << sh >> sh)
}

// FmtInt renders an integer value of type t as the runtime prints it.
func FmtInt(t *Type, v int64) string {
	if t.Signed {
		return strconv.FormatInt(v, 10)
	}
	return strconv.FormatUint(uint64(v), 10)
}

func copyVal(v Value) Value {
	if s, ok := v.([]Value); ok {
		c := make([]Value, len(s))
		for i := range s {
			c[i] = copyVal(s[i])
		}
		return c
	}
	return v
}

func (in *Interp) block(ss []Stmt, parent *frame) ctl {
	fr := &frame{vars: map[string]*cell{}, parent: parent}
	return in.stmts(ss, fr)
}

func (in *Interp) stmts(ss []Stmt, fr *frame) ctl {
	for _, s := range ss {
		if c := in.stmt(s, fr); c != ctlNone {
			return c
		}
	}
	return ctlNone
}

func (in *Interp) stmt(s Stmt, fr *frame) ctl {
	in.tick()
	switch n := s.(type) {
	case *Let:
		v := in.eval(n.Init, fr)
		if n.T != nil && n.T.K != KRef {
			v = deref(v) // `let v: T = r` with r: &T copies the value
		}
		fr.vars[n.Name] = &cell{v: v}
	case *LetClosure:
		if in.closures == nil {
			in.closures = map[string]closureVal{}
		}
		fr.vars[n.Name] = &cell{v: closureVal{c: n.C, env: fr}}
	case *Assign:
		pl := in.place(n.LHS, fr)
		t := placeType(n.LHS)
		rhs := in.eval(n.RHS, fr)
		if n.Op == "=" {
			pl.Store(rhs)
		} else {
			cur := pl.Load().(int64)
			pl.Store(in.arith(n.Op[:1], t, cur, rhs.(int64)))
		}
	case *IncDec:
		pl := in.place(n.X, fr)
		t := placeType(n.X)
		d := int64(1)
		if !n.Inc {
			d = -1
		}
		pl.Store(Norm(t, pl.Load().(int64)+d))
	case *If:
		if in.eval(n.Cond, fr).(bool) {
			return in.block(n.Then, fr)
		} else if n.Else != nil {
			return in.block(n.Else, fr)
		}
	case *While:
		for in.eval(n.Cond, fr).(bool) {
			in.tick()
			c := in.block(n.Body, fr)
			if c == ctlBreak {
				break
			}
			if c == ctlReturn {
				return c
			}
		}
	case *ForRange:
		lo := in.eval(n.Lo, fr).(int64)
		hi := in.eval(n.Hi, fr).(int64)
		step := int64(1)
		if n.Step != nil {
			step = in.eval(n.Step, fr).(int64)
		}
		// bounds and step are evaluated once (start, end, step); the loop runs while the value has
		// not passed the end in the direction of the step; a zero step never runs
		for i := lo; ; i = Norm(n.T, i+step) {
			up, down := "<", ">"
			if n.Incl {
				up, down = "<=", ">="
			}
			if !(in.cmp(">", n.T, step, 0) && in.cmp(up, n.T, i, hi) || in.cmp("<", n.T, step, 0) && in.cmp(down, n.T, i, hi)) {
				break
			}
			in.tick()
			b := &frame{vars: map[string]*cell{n.Var: {v: i}}, parent: fr}
			c := in.stmts(n.Body, b)
			if c == ctlBreak {
				break
			}
			if c == ctlReturn {
				return c
			}
		}
	case *ForDyn:
		d := in.eval(n.Arr, fr).(*Dyn)
		for i := 0; i < len(d.Elems); i++ {
			in.tick()
			b := &frame{vars: map[string]*cell{n.Val: {v: copyVal(d.Elems[i])}}, parent: fr}
			if n.Idx != "" {
				b.vars[n.Idx] = &cell{v: int64(i)}
			}
			c := in.stmts(n.Body, b)
			if c == ctlBreak {
				break
			}
			if c == ctlReturn {
				return c
			}
		}
	case *Break:
		return ctlBreak
	case *Continue:
		return ctlContinue
	case *Print:
		in.out = append(in.out, in.show(n.X.Ty(), in.eval(n.X, fr)))
	case *ExprStmt:
		in.eval(n.X, fr)
	case *Return:
		if n.X != nil {
			in.retVal = in.eval(n.X, fr)
		} else {
			in.retVal = nil
		}
		in.retErr = nil
		return ctlReturn
	case *ReturnErr:
		m := n.Msg
		in.retErr = &m
		in.retVal = nil
		return ctlReturn
	case *Match:
		sv := in.eval(n.Subj, fr)
		for _, a := range n.Arms {
			if in.eval(a.Pat, fr) == sv {
				return in.block(a.Body, fr)
			}
		}
		if n.HasDef {
			return in.block(n.Default, fr)
		}
	case *Append:
		d := in.place(n.Arr, fr).Load().(*Dyn)
		d.Elems = append(d.Elems, in.eval(n.Val, fr))
	case *Block:
		return in.block(n.Body, fr)
	default:
		panic(internalErr{fmt.Sprintf("unknown stmt %T", s)})
	}
	return ctlNone
}

func placeType(e Expr) *Type {
	t := e.Ty()
	if t.K == KRef {
		return t.Elem
	}
	return t
}

func (in *Interp) show(t *Type, v Value) string {
	if t.K == KRef {
		t = t.Elem
		if r, ok := v.(*Ref); ok {
			v = r.P.Load()
		}
	}
	switch x := v.(type) {
	case int64:
		if t.K == KEnum {
			return t.Variants[x]
		}
		return FmtInt(t, x)
	case bool:
		if x {
			return "true"
		}
		return "false"
	case string:
		return x
	}
	panic(internalErr{fmt.Sprintf("cannot print %T", v)})
}

// place evaluates an lvalue. A variable holding a reference denotes the referent.
func (in *Interp) place(e Expr, fr *frame) Place {
	switch n := e.(type) {
	case *Var:
		c := fr.lookup(n.Name)
		if c == nil {
			panic(internalErr{"undefined variable " + n.Name})
		}
		if r, ok := c.v.(*Ref); ok {
			return r.P
		}
		return c
	case *FieldX:
		base := in.place(n.X, fr)
		st := n.X.Ty()
		if st.K == KRef {
			st = st.Elem
		}
		for i, f := range st.Fields {
			if f.Name == n.Name {
				return elemPlace{base, i}
			}
		}
		panic(internalErr{"no field " + n.Name})
	case *Index:
		xt := n.X.Ty()
		if xt.K == KRef {
			xt = xt.Elem
		}
		if xt.K == KDyn {
			d := in.place(n.X, fr).Load().(*Dyn)
			i := in.eval(n.I, fr).(int64)
			return dynPlace{d, in.dynIndex(i, len(d.Elems))}
		}
		base := in.place(n.X, fr)
		i := in.eval(n.I, fr).(int64)
		if i < 0 {
			i += int64(xt.N)
		}
		if i < 0 || i >= int64(xt.N) {
			panic(ferretPanic{"index out of bounds"})
		}
		return elemPlace{base, int(i)}
	}
	panic(internalErr{fmt.Sprintf("not a place: %T", e)})
}

func (in *Interp) dynIndex(i int64, n int) int {
	if i < 0 {
		i += int64(n)
	}
	if i < 0 || i >= int64(n) {
		panic(ferretPanic{"index out of bounds"})
	}
	return int(i)
}

func (in *Interp) arith(op string, t *Type, a, b int64) int64 {
	switch op {
	case "+":
		return Norm(t, a+b)
	case "-":
		return Norm(t, a-b)
	case "*":
		return Norm(t, a*b)
	case "/", "%":
		if b == 0 {
			panic(internalErr{"division by zero generated"})
		}
		if t.Signed {
			if op == "/" {
				return Norm(t, a/b)
			}
			return Norm(t, a%b)
		}
		ua, ub := uint64(a), uint64(b)
		if op == "/" {
			return Norm(t, int64(ua/ub))
		}
		return Norm(t, int64(ua%ub))
	}
	panic(internalErr{"bad arith op " + op})
}

func (in *Interp) cmp(op string, t *Type, a, b int64) bool {
	var lt, eq bool
	eq = a == b
	if t.K == KInt && !t.Signed {
		lt = uint64(a) < uint64(b)
	} else {
		lt = a < b
	}
	switch op {
	case "==":
		return eq
	case "!=":
		return !eq
	case "<":
		return lt
	case "<=":
		return lt || eq
	case ">":
		return !lt && !eq
	case ">=":
		return !lt
	}
	panic(internalErr{"bad cmp " + op})
}

func (in *Interp) eval(e Expr, fr *frame) Value {
	in.tick()
	switch n := e.(type) {
	case *Lit:
		switch n.T.K {
		case KBool:
			return n.I != 0
		case KStr:
			return n.S
		}
		return n.I
	case *Var:
		c := fr.lookup(n.Name)
		if c == nil {
			panic(internalErr{"undefined variable " + n.Name})
		}
		return copyVal(c.v)
	case *Bin:
		l := in.eval(n.L, fr)
		r := in.eval(n.R, fr)
		l, r = deref(l), deref(r)
		switch n.Op {
		case "&&":
			return l.(bool) && r.(bool)
		case "||":
			return l.(bool) || r.(bool)
		case "+", "-", "*", "/", "%":
			if ls, ok := l.(string); ok {
				return ls + r.(string)
			}
			return in.arith(n.Op, n.T, l.(int64), r.(int64))
		default:
			ot := n.L.Ty()
			if ot.K == KRef {
				ot = ot.Elem
			}
			switch lv := l.(type) {
			case string:
				if n.Op == "==" {
					return lv == r.(string)
				}
				return lv != r.(string)
			case bool:
				if n.Op == "==" {
					return lv == r.(bool)
				}
				return lv != r.(bool)
			}
			return in.cmp(n.Op, ot, l.(int64), r.(int64))
		}
	case *Un:
		x := deref(in.eval(n.X, fr))
		if n.Op == "!" {
			return !x.(bool)
		}
		t := n.X.Ty()
		if t.K == KRef {
			t = t.Elem
		}
		return Norm(t, -x.(int64))
	case *Cast:
		x := deref(in.eval(n.X, fr))
		return Norm(n.T, x.(int64))
	case *Call:
		return in.call(n.Fn, nil, n.Args, fr, nil)
	case *MCall:
		return in.call(n.M, n.Recv, n.Args, fr, nil)
	case *ClosureCall:
		cv := fr.lookup(n.Name).v.(closureVal)
		cf := &frame{vars: map[string]*cell{}, parent: cv.env}
		for i, p := range cv.c.Params {
			cf.vars[p.Name] = &cell{v: in.eval(n.Args[i], fr)}
		}
		sv, se := in.retVal, in.retErr
		c := in.stmts(cv.c.Body, cf)
		rv := in.retVal
		in.retVal, in.retErr = sv, se
		if c != ctlReturn && cv.c.Ret != nil && cv.c.Ret.K != KVoid {
			panic(fellOff{"closure " + n.Name})
		}
		return rv
	case *FieldX:
		return copyVal(in.place(n, fr).Load())
	case *Index:
		xt := n.X.Ty()
		if xt.K == KRef {
			xt = xt.Elem
		}
		if xt.K == KStr {
			s := deref(in.eval(n.X, fr)).(string)
			i := in.eval(n.I, fr).(int64)
			return string(s[in.dynIndex(i, len(s))])
		}
		return copyVal(in.place(n, fr).Load())
	case *StructLit:
		vs := make([]Value, len(n.Vals))
		for i, v := range n.Vals {
			vs[i] = in.eval(v, fr)
		}
		return vs
	case *ArrLit:
		vs := make([]Value, len(n.Elems))
		for i, v := range n.Elems {
			vs[i] = in.eval(v, fr)
		}
		if n.T.K == KDyn {
			return &Dyn{Elems: vs}
		}
		return vs
	case *EnumLit:
		return int64(n.V)
	case *Len:
		switch x := deref(in.eval(n.X, fr)).(type) {
		case *Dyn:
			return int64(len(x.Elems))
		case string:
			return int64(len(x))
		case []Value:
			return int64(len(x))
		}
		panic(internalErr{"len of non-collection"})
	case *Borrow:
		return &Ref{P: in.place(n.X, fr)}
	case *Catch:
		var errMsg *string
		v := in.call(n.Call.Fn, nil, n.Call.Args, fr, &errMsg)
		if errMsg == nil {
			return v
		}
		if n.ErrVar != "" {
			hf := &frame{vars: map[string]*cell{n.ErrVar: {v: *errMsg}}, parent: fr}
			if c := in.stmts(n.Handler, hf); c != ctlNone {
				panic(internalErr{"control flow out of a catch handler is not generated"})
			}
		}
		return in.eval(n.Fallback, fr)
	}
	panic(internalErr{fmt.Sprintf("unknown expr %T", e)})
}

func deref(v Value) Value {
	if r, ok := v.(*Ref); ok {
		return copyVal(r.P.Load())
	}
	return v
}

// call evaluates arguments left to right, binds them by value (references share the place)
// and runs the body. errOut receives the error of a result function.
func (in *Interp) call(f *Func, recv Expr, argv []Expr, fr *frame, errOut **string) Value {
	cf := &frame{vars: map[string]*cell{}}
	if recv != nil {
		if f.Recv.T.K == KRef {
			cf.vars[f.Recv.Name] = &cell{v: &Ref{P: in.place(recv, fr)}}
		} else {
			cf.vars[f.Recv.Name] = &cell{v: copyVal(in.place(recv, fr).Load())}
		}
	}
	for i, p := range f.Params {
		v := in.eval(argv[i], fr)
		if p.T.K != KRef {
			v = deref(v)
		}
		cf.vars[p.Name] = &cell{v: v}
	}
	sv, se := in.retVal, in.retErr
	in.retVal, in.retErr = nil, nil
	c := in.stmts(f.Body, cf)
	rv, re := in.retVal, in.retErr
	in.retVal, in.retErr = sv, se
	if f.Ret != nil && f.Ret.K != KRef {
		rv = deref(rv) // `return r` with r: &T in a function returning T yields the value
	}
	if c != ctlReturn && f.Ret != nil && f.Ret.K != KVoid {
		panic(fellOff{f.Name})
	}
	if re != nil {
		if errOut == nil {
			panic(internalErr{"unhandled result error from " + f.Name})
		}
		*errOut = re
		return nil
	}
	return copyVal(rv)
}
