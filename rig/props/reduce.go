package props

import (
	"fmt"
	"os"
	"strconv"
	"strings"

	"verifrig/core"
	"verifrig/gen"
)

// ReduceCLI: vcheck __reduce <seed> <index> [wasm]  — regenerates the C01 program of (seed, index),
// determines its failure signature and prints a reduced program with the same signature.
// Debugging aid only; not part of any registered check.
func ReduceCLI(args []string) {
	seed, _ := strconv.ParseInt(args[0], 10, 64)
	idx, _ := strconv.Atoi(args[1])
	target := core.Native
	if len(args) > 2 && args[2] == "wasm" {
		target = core.Wasm
	}
	env, err := core.NewEnv("quick")
	if err != nil {
		panic(err)
	}
	defer env.Close()
	env.Seed = seed
	c := &Ctx{Env: env, R: core.NewReport("C01", env)}
	rng := core.CaseRng(seed, "C01", idx)
	cfg := &gen.Config{Off: gatedFeatures(c), MainLen: 8 + rng.IntN(14), Wasm: target == core.Wasm}
	p := gen.Generate(rng, cfg)
	n := 0
	sigOf := func(q *gen.Program) string {
		n++
		exp := gen.Run(q)
		if exp.Internal != "" || exp.Timeout || exp.FellOff != "" {
			return "harness"
		}
		pr, err := buildAndRun(c, "reduce", n, q.Source(), target, false)
		if err != nil {
			return "harness"
		}
		if !pr.Compile.Accepted() {
			if pr.Compile.Crash != "" {
				return "crash: " + pr.Compile.Crash
			}
			e := pr.Compile.FirstError()
			if i := strings.Index(e, "for module"); i > 0 {
				e = e[:i]
			}
			// include the QBE complaint when present
			for _, l := range strings.Split(core.StripANSI(pr.Compile.Proc.Stderr), "\n") {
				if strings.Contains(l, ".ssa:") {
					if k := strings.Index(l, ": "); k > 0 {
						e += " | " + strings.TrimSpace(l[k+2:])
					}
					// drop temp names
					break
				}
			}
			return "rejected: " + normTemps(e)
		}
		sig, _ := compareWithReference(exp, pr.Run)
		return sig
	}
	want := sigOf(p)
	fmt.Fprintln(os.Stderr, "signature:", want)
	if want == "" {
		fmt.Println("program passes")
		return
	}
	red := gen.Reduce(p, func(q *gen.Program) bool { return sigOf(q) == want })
	fmt.Fprintf(os.Stderr, "reduced with %d compiles\n", n)
	fmt.Println(red.Source())
	exp := gen.Run(red)
	fmt.Println("// expected:", exp.Lines, exp.Panic)
}

func normTemps(s string) string {
	out := []byte{}
	for i := 0; i < len(s); i++ {
		if s[i] == '%' {
			out = append(out, '%', 't')
			i++
			for i < len(s) && (s[i] >= '0' && s[i] <= '9' || s[i] >= 'a' && s[i] <= 'z') {
				i++
			}
			i--
			continue
		}
		out = append(out, s[i])
	}
	return string(out)
}
