package props

import (
	"fmt"
	"os"
	"path/filepath"
	"sort"
	"strings"

	"verifrig/core"
	"verifrig/gen"
)

// C01 — native executables behave as the source program's defined semantics.
// Reference-model monitor: every generated core-language program is executed by the reference
// interpreter (expected lines + termination kind) and by the real pipeline (ferret -> QBE -> as/ld
// -> run); thorough re-runs a share of the executables under valgrind memcheck.

func init() { register("C01", checkC01) }

// gatedFeatures returns the generator features switched off by open known findings.
func gatedFeatures(c *Ctx) map[string]bool {
	kf, err := core.LoadFindings(c.Env.Verif)
	if err != nil {
		return map[string]bool{}
	}
	g := kf.Gated()
	for _, f := range strings.Split(os.Getenv("VERIF_OFF"), ",") { // debugging aid
		if f != "" {
			g[f] = true
		}
	}
	return g
}

type progRun struct {
	Src     string
	Dir     string
	Compile core.CompileResult
	Run     core.RunResult
}

// buildAndRun compiles a program for a target and runs it.
func buildAndRun(c *Ctx, tag string, idx int, src string, target core.Target, valgrind bool) (progRun, error) {
	bin, err := c.Env.Ferret()
	if err != nil {
		return progRun{}, err
	}
	libs, err := c.Env.Libs()
	if err != nil {
		return progRun{}, err
	}
	d := c.Env.CaseDir(tag, fmt.Sprintf("p%d", idx))
	f := filepath.Join(d, "main.fer")
	core.WriteFile(f, src)
	pr := progRun{Src: src, Dir: d}
	pr.Compile = core.Compile(core.CompileOpts{Binary: bin, Libs: libs, Target: target, CPUSecs: 30}, f)
	if pr.Compile.Proc.WallOut || pr.Compile.Proc.CPUOut {
		// a watchdog ended the compilation (loaded machine, or a hang — which is C13's property):
		// no verdict for the property under test
		return pr, fmt.Errorf("compile watchdog fired (wall=%v cpu=%v) for %s", pr.Compile.Proc.WallOut, pr.Compile.Proc.CPUOut, f)
	}
	if !pr.Compile.Accepted() && pr.Compile.Crash == "" && len(core.Errors(pr.Compile.Diags)) == 0 {
		// a failed build without any error diagnostic (assembler / linker / out-of-resources on a
		// loaded machine) is retried once; whether such a silent failure is legitimate is C13's
		// question, not a verdict on the program under test
		again := core.Compile(core.CompileOpts{Binary: bin, Libs: libs, Target: target, CPUSecs: 30}, f)
		c.R.Count("builds_retried_after_a_failure_without_diagnostics", 1)
		if again.Accepted() {
			pr.Compile = again
		}
	}
	if !pr.Compile.Accepted() {
		return pr, nil
	}
	if target == core.Wasm {
		runner, err := c.Env.RuntimeMJS()
		if err != nil {
			return pr, err
		}
		pr.Run = core.RunWasm(runner, pr.Compile.Artifact, 20)
	} else if valgrind {
		pr.Run = core.RunNative(pr.Compile.Artifact, 60, "valgrind", "-q", "--error-exitcode=97")
	} else {
		pr.Run = core.RunNative(pr.Compile.Artifact, 20)
	}
	return pr, nil
}

// compareWithReference returns "" when the run matches the interpreter's outcome.
func compareWithReference(o gen.Outcome, run core.RunResult) (sig, detail string) {
	wantKind := core.RunExit0
	if o.Panic != "" {
		wantKind = core.RunPanic
	}
	got := run.Lines
	n := len(o.Lines)
	if len(got) < n {
		n = len(got)
	}
	for i := 0; i < n; i++ {
		if got[i] != o.Lines[i] {
			return "output-differs", fmt.Sprintf("line %d: expected %q, program printed %q\nexpected: %v\nprinted:  %v", i+1, o.Lines[i], got[i], clip(o.Lines, i), clip(got, i))
		}
	}
	if len(got) != len(o.Lines) {
		return "output-length-differs", fmt.Sprintf("expected %d lines, program printed %d\nexpected tail: %v\nprinted tail:  %v\nstderr: %s", len(o.Lines), len(got), clip(o.Lines, n), clip(got, n), core.Short(run.Proc.Stderr, 300))
	}
	if run.Kind != wantKind {
		return "termination-differs", fmt.Sprintf("expected %s (%s), program ended with %s (%s) exit=%d signal=%d\nstderr: %s", wantKind, o.Panic, run.Kind, run.PanicMsg, run.Proc.Exit, run.Proc.Signal, core.Short(run.Proc.Stderr, 300))
	}
	if o.Panic != "" && !strings.Contains(run.PanicMsg, o.Panic) {
		return "panic-message-differs", fmt.Sprintf("expected panic %q, got %q", o.Panic, run.PanicMsg)
	}
	return "", ""
}

func clip(l []string, around int) []string {
	lo := around - 3
	if lo < 0 {
		lo = 0
	}
	hi := around + 4
	if hi > len(l) {
		hi = len(l)
	}
	return l[lo:hi]
}

func featureList(p *gen.Program) []string {
	var fs []string
	for f := range p.Features {
		fs = append(fs, f)
	}
	sort.Strings(fs)
	return fs
}

func checkC01(c *Ctx) error {
	r := c.R
	r.Rule = "random well-typed core-language programs (all integer widths with boundary-weighted constants, nested arithmetic with casts and truncating division, structs with value/&/&' methods and by-value passing, enums and match, fixed arrays with copy semantics and negative constant indices, dynamic arrays, strings, functions, recursion, closures capturing by reference, results with catch, references, if/else-if/else, while, for over ranges and arrays, break/continue, observable left-to-right evaluation) built from a typed mini-AST; the same AST is interpreted by the reference interpreter and compiled+run natively; non-trivial = a distinct program that compiled, ran and printed >=1 line identical to the reference"
	r.Assumptions = []string{"the reference interpreter is the rig's reading of the semantics stated by the property", "constructs whose meaning is not pinned (division by 0 / of MIN by -1, short-circuit evaluation, out-of-range casts) are not generated", "features gated by open findings in known_findings.json are exercised only by their pinned probes"}
	n := c.N(70, 1500)
	runProbes(c, "C01", core.Native)
	runMatrix(c, core.Native)
	gates := gatedFeatures(c)
	r.Set("gated_features", keysOf(gates))
	featHist := map[string]int{}
	var mu = make(chan struct{}, 1)
	mu <- struct{}{}
	core.ParDo(n, 5, func(i int) {
		rng := r.Rng(i)
		cfg := &gen.Config{Off: gates, MainLen: 8 + rng.IntN(14)}
		p := gen.Generate(rng, cfg)
		src := p.Source()
		id := fmt.Sprintf("gen:%d:%d", c.Env.Seed, i)
		exp := gen.Run(p)
		r.Eval()
		if exp.Internal != "" || exp.Timeout || exp.FellOff != "" {
			r.Fail(core.Failure{Case: id, Signature: "HARNESS generator/interpreter bug", Detail: fmt.Sprintf("internal=%q timeout=%v felloff=%q\n%s", exp.Internal, exp.Timeout, exp.FellOff, src), Replay: src})
			return
		}
		vg := !c.Quick() && i%10 == 0
		pr, err := buildAndRun(c, "c01", i, src, core.Native, vg)
		if err != nil {
			r.Inconclusive(err.Error())
			return
		}
		feats := featureList(p)
		if !pr.Compile.Accepted() {
			sig := "core-program-rejected: " + core.Short(pr.Compile.FirstError(), 80)
			if pr.Compile.Crash != "" {
				sig = "compiler-crash: " + pr.Compile.Crash
			}
			r.Fail(core.Failure{Case: id, Signature: sig, Detail: fmt.Sprintf("features %v\n%s\n%s", feats, core.Short(core.StripANSI(pr.Compile.Proc.Stderr), 1200), src), Replay: src})
			return
		}
		if pr.Run.Kind == core.RunTimeout || pr.Run.Kind == core.RunError {
			r.Inconclusive(fmt.Sprintf("%s: run %s", id, pr.Run.Kind))
			return
		}
		if vg && pr.Run.Proc.Exit == 97 {
			r.Fail(core.Failure{Case: id, Signature: "valgrind: " + firstValgrindLine(pr.Run.Proc.Stderr), Detail: core.Short(pr.Run.Proc.Stderr, 2000) + "\n" + src, Replay: src})
			return
		}
		if sig, det := compareWithReference(exp, pr.Run); sig != "" {
			r.Fail(core.Failure{Case: id, Signature: sig, Detail: fmt.Sprintf("features %v\n%s\n%s", feats, det, src), Replay: src})
			return
		}
		if len(exp.Lines) > 0 {
			r.Nontrivial(src)
		}
		r.Count("lines_compared", len(exp.Lines))
		if vg {
			r.Count("valgrind_clean_runs", 1)
		}
		<-mu
		for _, f := range feats {
			featHist[f]++
		}
		mu <- struct{}{}
		if i < 2 {
			r.Sample(map[string]interface{}{"program": src, "expected_lines": exp.Lines, "features": feats})
		}
	})
	r.Set("feature_histogram", featHist)
	return nil
}

func keysOf(m map[string]bool) []string {
	var k []string
	for x := range m {
		k = append(k, x)
	}
	sort.Strings(k)
	return k
}

// runProbes runs the pinned programs of probes/<prop>/*.fer (expected stdout in <name>.expect;
// an optional first line "PANIC <msg>" in the .expect file means the run must end in that panic).
func runProbes(c *Ctx, prop string, target core.Target) {
	r := c.R
	files, _ := filepath.Glob(filepath.Join(c.Env.Verif, "probes", prop, "*.fer"))
	sort.Strings(files)
	core.ParDo(len(files), 4, func(i int) {
		f := files[i]
		name := strings.TrimSuffix(filepath.Base(f), ".fer")
		id := "probe:" + name
		srcb, err := os.ReadFile(f)
		if err != nil {
			return
		}
		expb, err := os.ReadFile(strings.TrimSuffix(f, ".fer") + ".expect")
		if err != nil {
			r.Inconclusive("probe without .expect: " + name)
			return
		}
		exp := gen.Outcome{}
		mayReject := false
		for _, l := range strings.Split(strings.TrimSuffix(string(expb), "\n"), "\n") {
			if l == "MAY-REJECT" { // a clean compile-time rejection is as good as the listed output
				mayReject = true
				continue
			}
			if strings.HasPrefix(l, "PANIC ") {
				exp.Panic = strings.TrimPrefix(l, "PANIC ")
				continue
			}
			exp.Lines = append(exp.Lines, l)
		}
		src := string(srcb)
		pr, err := buildAndRun(c, "probe-"+prop+"-"+string(target), i, src, target, false)
		r.Eval()
		if err != nil {
			r.Inconclusive(err.Error())
			return
		}
		if !pr.Compile.Accepted() && mayReject && pr.Compile.CleanReject() {
			r.Nontrivial(id + src)
			r.Count("probes_ok", 1)
			return
		}
		if !pr.Compile.Accepted() {
			sig := "core-program-rejected: " + core.Short(pr.Compile.FirstError(), 80)
			if pr.Compile.Crash != "" {
				sig = "compiler-crash: " + pr.Compile.Crash
			}
			r.Fail(core.Failure{Case: id, Signature: sig, Detail: core.Short(core.StripANSI(pr.Compile.Proc.Stderr), 1500) + "\n" + src, Replay: src})
			return
		}
		if sig, det := compareWithReference(exp, pr.Run); sig != "" {
			r.Fail(core.Failure{Case: id, Signature: sig, Detail: det + "\n" + src, Replay: src})
			return
		}
		r.Nontrivial(id + src)
		r.Count("probes_ok", 1)
	})
}

// runMatrix compiles and runs the deterministic matrix programs for one target and compares them
// with the reference interpreter.
func runMatrix(c *Ctx, target core.Target) {
	r := c.R
	progs := matrixPrograms()
	core.ParDo(len(progs), 5, func(k int) {
		mp := progs[k]
		if target == core.Wasm && !mp.wasmOK {
			return
		}
		id := "matrix:" + mp.name
		if target == core.Wasm {
			id += "@wasm"
		}
		src := mp.p.Source()
		exp := gen.Run(mp.p)
		r.Eval()
		if exp.Internal != "" || exp.Timeout || exp.FellOff != "" || exp.Panic != "" {
			r.Fail(core.Failure{Case: id, Signature: "HARNESS matrix program / interpreter bug", Detail: fmt.Sprintf("internal=%q timeout=%v felloff=%q panic=%q\n%s", exp.Internal, exp.Timeout, exp.FellOff, exp.Panic, core.Short(src, 3000)), Replay: src})
			return
		}
		pr, err := buildAndRun(c, "matrix-"+string(target), k, src, target, false)
		if err != nil {
			r.Inconclusive(err.Error())
			return
		}
		if !pr.Compile.Accepted() {
			sig := "matrix-program-rejected: " + core.Short(pr.Compile.FirstError(), 80)
			if pr.Compile.Crash != "" {
				sig = "compiler-crash: " + pr.Compile.Crash
			}
			r.Fail(core.Failure{Case: id, Signature: sig, Detail: core.Short(core.StripANSI(pr.Compile.Proc.Stderr), 1500), Replay: src})
			return
		}
		if pr.Run.Kind == core.RunTimeout || pr.Run.Kind == core.RunError {
			r.Inconclusive(fmt.Sprintf("%s: run %s", id, pr.Run.Kind))
			return
		}
		if sig, det := compareWithReference(exp, pr.Run); sig != "" {
			r.Fail(core.Failure{Case: id, Signature: sig, Detail: det, Replay: src})
			return
		}
		r.Nontrivial(src)
		r.Count("matrix_programs_equal", 1)
		r.Count("matrix_lines_compared", len(exp.Lines))
	})
}
