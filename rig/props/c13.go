package props

import (
	"fmt"
	"math/rand/v2"
	"os"
	"path/filepath"
	"sort"
	"strings"

	"compiler/verifhook"

	"verifrig/core"
)

// C13 — the compiler is total: never crashes or hangs, reports failure faithfully.
// Crash / sanitizer-style monitor over hostile inputs. Breadth comes from the in-process worker
// pool (type-check and wasm targets: a Go panic is caught with its stack, a fatal error kills the
// worker and is attributed to the logged job); honesty about the process-level contract (exit
// status, artifact, CPU time) comes from running the real CLI on a share of the inputs and on
// every suspicious one.

func init() { register("C13", checkC13) }

type hostile struct {
	id    string
	class string
	files map[string]string // main.fer + optional others
}

func c13Corpus(repo string) []string {
	var out []string
	for _, pat := range []string{"smoke_test/*.fer", "examples/*.fer", "smoke_test/extra/*.fer", "smoke_test/advanced/*.fer"} {
		m, _ := filepath.Glob(filepath.Join(repo, pat))
		sort.Strings(m)
		for _, f := range m {
			if b, err := os.ReadFile(f); err == nil && len(b) < 8000 && len(b) > 0 {
				out = append(out, string(b))
			}
		}
	}
	out = append(out, c06Prelude+"\nfn main() {\n    let p := mkP();\n    p.bump();\n    io::Println(p.X);\n}\n")
	return out
}

func safeTokenize(src string) (toks []verifhook.Tok) {
	defer func() {
		if r := recover(); r != nil {
			toks = nil
		}
	}()
	t, _ := verifhook.Tokenize(src)
	return t
}

var c13Vocab = []string{"fn", "let", "const", "type", "struct", "enum", "interface", "if", "else", "while", "for", "in", "match", "return", "break", "continue", "import", "as", "catch", "none", "true", "false", "map", "is",
	"(", ")", "{", "}", "[", "]", ";", ",", ".", ":", "::", ":=", "=", "==", "!=", "<", ">", "<=", ">=", "+", "-", "*", "/", "%", "**", "++", "--", "+=", "-=", "&", "&'", "!", "?", "??", "->", "=>", "..", "..=", "|", "&&", "||", "@", "#", "$", "'", "\"", "_",
	"x", "y", "main", "io", "Println", "i32", "u8", "f64", "str", "bool", "i128", "0", "1", "42", "3.14", "0x", "1e", "\"s\"", "'c'", "'", "\"unterminated", "/*", "*/", "//", "\n", "\t", " "}

func genHostile(rng *rand.Rand, corpus []string, idx int) hostile {
	h := hostile{files: map[string]string{}}
	base := corpus[rng.IntN(len(corpus))]
	switch cls := rng.IntN(20); {
	case cls == 0: // random bytes
		h.class = "random-bytes"
		b := make([]byte, rng.IntN(1500))
		for i := range b {
			b[i] = byte(rng.IntN(256))
		}
		h.files["main.fer"] = string(b)
	case cls == 1: // utf-8 noise
		h.class = "utf8-noise"
		var sb strings.Builder
		n := rng.IntN(600)
		for i := 0; i < n; i++ {
			switch rng.IntN(4) {
			case 0:
				sb.WriteRune(rune(0x20 + rng.IntN(0x5f)))
			case 1:
				sb.WriteRune(rune(0xa0 + rng.IntN(0x3000)))
			case 2:
				sb.WriteString(c13Vocab[rng.IntN(len(c13Vocab))])
			default:
				sb.WriteRune(rune(rng.IntN(0x20)))
			}
		}
		h.files["main.fer"] = sb.String()
	case cls <= 4: // truncation
		h.class = "truncation"
		cut := rng.IntN(len(base) + 1)
		if toks := safeTokenize(base); len(toks) > 1 && rng.IntN(2) == 0 {
			cut = toks[rng.IntN(len(toks))].Start
			if cut > len(base) {
				cut = len(base)
			}
		}
		h.files["main.fer"] = base[:cut]
	case cls <= 11: // token mutations
		toks := safeTokenize(base)
		if len(toks) < 3 {
			h.class = "truncation"
			h.files["main.fer"] = base[:len(base)/2]
			break
		}
		pieces := make([]string, 0, len(toks)*2)
		prev := 0
		for _, t := range toks {
			if t.Start < prev || t.End > len(base) || t.End < t.Start {
				continue
			}
			pieces = append(pieces, base[prev:t.Start], base[t.Start:t.End])
			prev = t.End
		}
		pieces = append(pieces, base[prev:])
		nt := len(pieces) / 2
		nm := 1 + rng.IntN(3)
		ops := []string{}
		for m := 0; m < nm && nt > 1; m++ {
			k := rng.IntN(nt)*2 + 1
			switch rng.IntN(5) {
			case 0:
				pieces[k] = ""
				ops = append(ops, "delete")
			case 1:
				pieces[k] = pieces[k] + " " + pieces[k]
				ops = append(ops, "duplicate")
			case 2:
				j := rng.IntN(nt)*2 + 1
				pieces[k], pieces[j] = pieces[j], pieces[k]
				ops = append(ops, "swap")
			case 3:
				pieces[k] = c13Vocab[rng.IntN(len(c13Vocab))] + " " + pieces[k]
				ops = append(ops, "insert")
			default:
				pieces[k] = c13Vocab[rng.IntN(len(c13Vocab))]
				ops = append(ops, "replace")
			}
		}
		h.class = "token-" + strings.Join(ops, "+")
		if len(ops) > 1 {
			h.class = "token-multi"
		}
		h.files["main.fer"] = strings.Join(pieces, "")
	case cls == 12: // deep nesting
		h.class = "deep-nesting"
		d := 20 + rng.IntN(380)
		var body string
		switch rng.IntN(8) {
		case 0:
			body = "let x := " + strings.Repeat("(", d) + "1" + strings.Repeat(")", d) + ";"
		case 1:
			body = "let x := " + strings.Repeat("- ", d) + "1;"
		case 2:
			body = "let x := " + strings.Repeat("!", d) + "true;"
		case 3:
			body = strings.Repeat("{ ", d) + strings.Repeat("} ", d)
		case 4:
			body = "let x := " + strings.Repeat("[", d) + "1" + strings.Repeat("]", d) + ";"
		case 5:
			body = "let x: " + strings.Repeat("[]", d) + "i32 = [];"
		case 6:
			body = "let x := " + strings.Repeat("f(", d) + "1" + strings.Repeat(")", d) + ";"
		default:
			body = strings.Repeat("if true { ", d%400) + strings.Repeat("} ", d%400)
		}
		if rng.IntN(4) == 0 { // unbalanced
			body = body[:len(body)*2/3]
		}
		h.files["main.fer"] = "import \"std/io\";\n\nfn f(v: i32) -> i32 { return v; }\n\nfn main() {\n    " + body + "\n}\n"
	case cls == 13: // keyword soup
		h.class = "token-soup"
		var sb strings.Builder
		n := rng.IntN(300)
		for i := 0; i < n; i++ {
			sb.WriteString(c13Vocab[rng.IntN(len(c13Vocab))])
			if rng.IntN(3) != 0 {
				sb.WriteByte(' ')
			}
		}
		h.files["main.fer"] = sb.String()
	case cls == 14: // encoding / line oddities
		h.class = "encoding"
		switch rng.IntN(7) {
		case 0:
			h.files["main.fer"] = strings.ReplaceAll(base, "\n", "\r\n")
		case 1:
			h.files["main.fer"] = "\xef\xbb\xbf" + base
		case 2:
			p := rng.IntN(len(base) + 1)
			h.files["main.fer"] = base[:p] + "\x00" + base[p:]
		case 3:
			h.files["main.fer"] = base + "\nlet " + strings.Repeat("a", 5000+rng.IntN(5000)) + " := 1;\n"
		case 4:
			h.files["main.fer"] = base + "\nlet big := " + strings.Repeat("9", 200+rng.IntN(3000)) + ";\n"
		case 5:
			h.files["main.fer"] = base + "\n/* unterminated " + strings.Repeat("x", rng.IntN(100))
		default:
			h.files["main.fer"] = base + "\nlet s := \"unterminated" + strings.Repeat("\\", rng.IntN(3))
		}
	default: // project-level
		h.class = "project"
		main := "import \"std/io\";\n"
		switch rng.IntN(12) {
		case 0:
			main += "import \"{{PROJ}}/missing\";\n"
		case 1:
			main += "import \"{{PROJ}}/sub\";\n" // a directory
			h.files["sub/inner.fer"] = "fn F() -> i32 { return 1; }\n"
		case 2:
			main += "import \"{{PROJ}}/empty\";\n"
			h.files["empty.fer"] = ""
		case 3:
			main += "import \"{{PROJ}}/main\";\n" // self import
		case 4:
			main += "import \"\";\nimport \"//\";\nimport \"../up\";\nimport \"{{PROJ}}/a b\";\n"
		case 5:
			main += "fn early() { }\nimport \"{{PROJ}}/late\";\n"
			h.files["late.fer"] = "fn L() -> i32 { return 1; }\n"
		case 6:
			main += "import \"{{PROJ}}/a\";\n"
			h.files["a.fer"] = "import \"{{PROJ}}/b\";\nfn A() -> i32 { return b::B(); }\n"
			h.files["b.fer"] = "import \"{{PROJ}}/a\";\nfn B() -> i32 { return a::A(); }\n"
		case 7:
			main += "import \"{{PROJ}}/bad\";\n"
			h.files["bad.fer"] = base[:len(base)/2] // broken dependency
		case 8:
			main += "import \"{{PROJ}}/lib\" as io;\n" // alias collision
			h.files["lib.fer"] = "fn F() -> i32 { return 1; }\n"
		case 9:
			main += "import \"std/nonexistent\";\nimport \"github.com/x/y\";\n"
		case 10:
			main += "import \"{{PROJ}}/lib\";\nimport \"{{PROJ}}/lib\";\nimport \"{{PROJ}}/lib\" as again;\n"
			h.files["lib.fer"] = "fn F() -> i32 { return 1; }\n"
		default:
			main += "import 42;\nimport ;\nimport \"unterminated;\n"
		}
		main += "\nfn main() {\n    io::Println(1);\n}\n"
		if rng.IntN(3) == 0 {
			main = strings.Replace(main, "fn main", "fn notmain", 1)
		}
		h.files["main.fer"] = main
	}
	if len(h.files["main.fer"]) > 16<<10 {
		h.files["main.fer"] = h.files["main.fer"][:16<<10]
	}
	h.id = fmt.Sprintf("gen:%d", idx)
	return h
}

// c13Judge applies the predicates of the property to one outcome record.
// projDir / libs are used for the location check. Returns signature ("" = fine) and detail.
func c13Judge(res core.CompileResult, h hostile, projDir, libs string, expectArtifact bool) (string, string) {
	if res.Crash != "" {
		return "crash: " + res.Crash, core.Short(res.Proc.Stderr, 2500)
	}
	if res.Proc.CPUOut {
		return "cpu-budget-exceeded", ""
	}
	if res.Proc.WallOut {
		return "", "" // inconclusive, handled by caller
	}
	if res.Proc.Exit != 0 && res.Proc.Exit != 1 {
		return fmt.Sprintf("exit-status-%d", res.Proc.Exit), core.Short(res.Proc.Stderr, 1500)
	}
	errs := core.Errors(res.Diags)
	if res.Proc.Exit == 0 && len(errs) > 0 {
		return "exit0-with-error-diagnostic", errs[0].Message
	}
	if res.Proc.Exit == 1 && len(errs) == 0 {
		return "exit1-without-error-diagnostic", core.Short(core.StripANSI(res.Proc.Stderr+res.Proc.Stdout), 600)
	}
	if expectArtifact {
		if res.Proc.Exit == 0 && !res.Exists {
			return "exit0-without-artifact", ""
		}
		if res.Proc.Exit != 0 && res.Exists {
			return "artifact-left-after-failure", ""
		}
	}
	// locations
	for _, d := range res.Diags {
		if d.File == "" {
			continue
		}
		var content []byte
		ok := false
		if rel, err := filepath.Rel(projDir, d.File); err == nil && !strings.HasPrefix(rel, "..") {
			if b, err := os.ReadFile(d.File); err == nil {
				content, ok = b, true
			}
		} else if rel, err := filepath.Rel(libs, d.File); err == nil && !strings.HasPrefix(rel, "..") {
			if b, err := os.ReadFile(d.File); err == nil {
				content, ok = b, true
			}
		}
		if !ok {
			return "location-outside-input-files", fmt.Sprintf("%s:%d:%d %s", d.File, d.Line, d.Col, d.Message)
		}
		lines := strings.Count(string(content), "\n") + 1
		if d.Line < 1 || d.Line > lines+1 || d.Col < 1 {
			return "location-outside-file-bounds", fmt.Sprintf("%s:%d:%d (file has %d lines) %s", d.File, d.Line, d.Col, lines, d.Message)
		}
	}
	return "", ""
}

// c13ImportMatrix: directed mini-projects, import path spelling x alias x use of the alias. The
// spellings are the non-canonical forms of paths that exist (trailing / doubled / leading
// separators, ./ and ../ segments, backslashes, blanks, a file suffix, wrong case); whether such an
// import resolves or is refused is the compiler's business, it must neither crash nor misreport.
func c13ImportMatrix() []hostile {
	type spelling struct{ name, path, alias string }
	var sps []spelling
	for _, f := range []struct{ name, fmtS string }{
		{"canonical", "%s"}, {"trailing-slash", "%s/"}, {"double-slash", "%[2]s//%[3]s"}, {"leading-slash", "/%s"}, {"leading-blank", " %s"}, {"trailing-blank", "%s "},
		{"backslash", "%[2]s\\%[3]s"}, {"dot-segment", "%[2]s/./%[3]s"}, {"dotdot-segment", "%[2]s/x/../%[3]s"}, {"dot-prefix", "./%s"}, {"file-suffix", "%s.fer"}, {"upper-case", "%[4]s"},
		{"tab-inside", "%[2]s/\t%[3]s"}, {"trailing-double-slash", "%s//"},
	} {
		for _, tgt := range []struct{ head, tail, alias string }{{"std", "io", "io"}, {"{{PROJ}}", "lib", "lib"}} {
			full := tgt.head + "/" + tgt.tail
			sps = append(sps, spelling{f.name + ":" + tgt.alias, fmt.Sprintf(f.fmtS, full, tgt.head, tgt.tail, strings.ToUpper(full)), tgt.alias})
		}
	}
	uses := []struct{ name, top, body string }{
		{"unused", "", "let a := 1;"},
		{"alias-call", "", "ALIAS::USE;"},
		{"explicit-alias-call", "", "zz::USE;"},
		{"top-level-function-named-like-the-alias", "fn ALIAS() -> i32 {\n    return 1;\n}\n", "let a := 1;"},
		{"top-level-let-named-like-the-alias", "let ALIAS: i32 = 1;\n", "let a := 1;"},
		{"type-named-like-the-alias", "type ALIAS struct { .F: i32 };\n", "let a := 1;"},
		{"second-import-same-alias", "import \"{{PROJ}}/other\" as ALIAS;\n", "let a := 1;"},
	}
	var out []hostile
	for _, sp := range sps {
		for _, u := range uses {
			imp := fmt.Sprintf("import \"%s\";\n", sp.path)
			if u.name == "explicit-alias-call" {
				imp = fmt.Sprintf("import \"%s\" as zz;\n", sp.path)
			}
			use := "F()"
			if sp.alias == "io" {
				use = "Println(1)"
			}
			rep := strings.NewReplacer("ALIAS", sp.alias, "USE", use)
			main := imp + rep.Replace(u.top) + "\nfn main() {\n    " + rep.Replace(u.body) + "\n}\n"
			out = append(out, hostile{id: "import-matrix:" + sp.name + ":" + u.name, class: "import-matrix", files: map[string]string{
				"main.fer": main, "lib.fer": "fn F() -> i32 {\n    return 1;\n}\n", "other.fer": "fn G() -> i32 {\n    return 2;\n}\n"}})
		}
	}
	return out
}

// c13SeparatorMatrix: small programs holding every comma-separated construct of the language; each
// comma in turn is replaced by another token (or removed), one replacement per input. Error recovery
// after a wrong separator is where parsers loop or dereference nil.
func c13SeparatorMatrix() []hostile {
	templates := map[string]string{
		"decls": "import \"std/io\";\n\ntype P struct { .x: i32, .y: i32, .z: i64 };\ntype E enum { A, B, C };\ntype U union { i32, str, bool };\ntype Sh interface {\n    area() -> i32,\n    name() -> str,\n};\n\nfn add(a: i32, b: i32, c: i64) -> i32 {\n    return a + b;\n}\n\nfn main() {\n    io::Println(add(1, 2, 3));\n}\n",
		"exprs": "import \"std/io\";\n\ntype P struct { .x: i32, .y: i32 };\n\nfn add(a: i32, b: i32) -> i32 {\n    return a + b;\n}\n\nfn main() {\n    let p := { .x = 1, .y = 2 } as P;\n    let q: P = { .x = add(1, 2), .y = 3 };\n    let arr := [1, 2, 3];\n    let fa: [3]i32 = [4, 5, 6];\n    let m := {\"a\" => 1, \"b\" => 2} as map[str]i32;\n    let f := fn(u: i32, v: i32) -> i32 {\n        return u * v;\n    };\n    for i, v in arr {\n        io::Println(f(i, v));\n    }\n    io::Println(p.x, q.y);\n}\n",
		"match": "import \"std/io\";\n\ntype E enum { A, B, C };\n\nfn pick(e: E, k: i32) -> i32 {\n    match e {\n        E::A => { return 1; }\n        E::B => { return 2; }\n        _ => { return k; }\n    }\n}\n\nfn main() {\n    let t: struct { .P: i32, .Q: i32 } = { .P = 1, .Q = 2 };\n    io::Println(pick(E::B, t.P));\n}\n",
	}
	repl := []struct{ name, text string }{{"semicolon", ";"}, {"nothing", ""}, {"colon", ":"}, {"open-brace", "{"}, {"close-brace", "}"}, {"open-paren", "("}, {"dot", "."}, {"arrow", "=>"}, {"double-comma", ",,"}}
	var names []string
	for n := range templates {
		names = append(names, n)
	}
	sort.Strings(names)
	var out []hostile
	for _, n := range names {
		src := templates[n]
		k := 0
		for i := 0; i < len(src); i++ {
			if src[i] != ',' {
				continue
			}
			k++
			for _, rp := range repl {
				out = append(out, hostile{id: fmt.Sprintf("separator-matrix:%s:comma%d:%s", n, k, rp.name), class: "separator-matrix",
					files: map[string]string{"main.fer": src[:i] + rp.text + src[i+1:]}})
			}
		}
	}
	return out
}

func checkC13(c *Ctx) error {
	r := c.R
	r.Rule = "hostile inputs: random bytes, UTF-8 noise, prefix truncations (byte and token boundaries), 1-3 token deletions/duplications/swaps/insertions/replacements of corpus programs (smoke_test, examples), token soup, nesting depth up to 400, encoding oddities (CRLF, BOM, NUL, 10 KB identifiers, 3000-digit numbers, unterminated strings/comments), multi-file projects with missing/self/cyclic/malformed/late/duplicate imports, a directed matrix of 28 non-canonical import path spellings x 7 ways of using (or clashing with) the import alias, and a separator matrix (every comma of struct / enum / union / interface / parameter / argument / literal / map / loop-variable lists replaced by one of nine other tokens); inputs <= 16 KiB. Every input runs through the real compiler (in-process pool: type-check and wasm targets; real CLI: native target for a share of the inputs and for every suspicious one). non-trivial = a distinct input whose outcome record satisfied every predicate (no crash, CPU budget, exit status in {0,1} and consistent with the diagnostics, artifact consistent, locations inside input files)"
	r.Assumptions = []string{"CPU budget 20 s per <=16 KiB input (>=30x the worst observed)", "a wall-clock watchdog firing is inconclusive, not a violation", "diagnostics pointing into the bundled library files count as inside an input file"}
	corpus := c13Corpus(c.Env.Repo)
	n := c.N(600, 20000)
	libs, err := c.Env.Libs()
	if err != nil {
		return err
	}
	bin, err := c.Env.Ferret()
	if err != nil {
		return err
	}
	hs := make([]hostile, n)
	for i := range hs {
		hs[i] = genHostile(r.Rng(i), corpus, i)
		hs[i].id = fmt.Sprintf("gen:%d:%d", c.Env.Seed, i)
	}
	// pinned probes for crash sites seen earlier
	pins := []hostile{
		{id: "probe:keyword-as-name", class: "probe", files: map[string]string{"main.fer": "import \"std/io\";\n\nfn main() {\n    let priv := 1;\n    io::Println(priv);\n}\n"}},
		{id: "probe:missing-brace", class: "probe", files: map[string]string{"main.fer": "import \"std/io\";\n\nfn main() {\n    if true {\n        io::Println(1);\n"}},
		{id: "probe:import-only", class: "probe", files: map[string]string{"main.fer": "import"}},
		{id: "probe:empty-file", class: "probe", files: map[string]string{"main.fer": ""}},
		{id: "probe:qbe-type-error", class: "probe", files: map[string]string{"main.fer": "import \"std/io\";\n\nfn main() {\n    let x: i64 = 7;\n    x -= 2;\n    io::Println(x);\n}\n"}},
	}
	hs = append(pins, hs...)
	hs = append(c13ImportMatrix(), hs...)
	hs = append(c13SeparatorMatrix(), hs...)
	// stage 1: pool, type-check + wasm
	var jobs []core.Job
	dirs := make([]string, len(hs))
	for i, h := range hs {
		d := c.Env.CaseDir("c13", fmt.Sprintf("p%d", i))
		dirs[i] = d
		for rel, content := range h.files {
			content = strings.ReplaceAll(content, "{{PROJ}}", filepath.Base(d))
			core.WriteFile(filepath.Join(d, rel), content)
		}
		jobs = append(jobs, core.Job{ID: h.id + "@t", Entry: filepath.Join(d, "main.fer"), Target: "typecheck"})
		jobs = append(jobs, core.Job{ID: h.id + "@wasm", Entry: filepath.Join(d, "main.fer"), Target: "wasm", Out: filepath.Join(d, "out.wasm")})
	}
	pool := &core.Pool{Libs: libs, LogDir: filepath.Join(c.Env.Work, "pool-c13")}
	results := pool.Run(jobs)
	classSeen := map[string]int{}
	suspicious := map[int]string{}
	for i, h := range hs {
		classSeen[h.class]++
		for k, tgt := range []string{"t", "wasm"} {
			jr := results[2*i+k]
			art := ""
			if tgt == "wasm" {
				art = filepath.Join(dirs[i], "out.wasm")
			}
			res := jr.ToCompileResult(art)
			r.Eval()
			if res.Proc.WallOut {
				r.Inconclusive(h.id + "@" + tgt + " wall watchdog")
				continue
			}
			sig, _ := c13Judge(res, h, dirs[i], libs, tgt == "wasm")
			if sig != "" {
				if _, ok := suspicious[i]; !ok {
					suspicious[i] = tgt
				}
			} else {
				r.Nontrivial(h.id + "@" + tgt + h.files["main.fer"])
				r.Count("ok."+tgt, 1)
			}
		}
	}
	// stage 2: real CLI. Suspicious inputs on the target that looked wrong, and a share on native.
	type cliRun struct {
		i      int
		target core.Target
		why    string
	}
	var cli []cliRun
	for i, tgt := range suspicious {
		t := core.TypeCheck
		if tgt == "wasm" {
			t = core.Wasm
		}
		cli = append(cli, cliRun{i, t, "confirm"})
	}
	share := 5
	if !c.Quick() {
		share = 8
	}
	for i := range hs {
		if i < len(pins) || i%share == 0 {
			cli = append(cli, cliRun{i, core.Native, "sample"})
		}
	}
	sort.Slice(cli, func(a, b int) bool {
		if cli[a].i != cli[b].i {
			return cli[a].i < cli[b].i
		}
		return cli[a].target < cli[b].target
	})
	r.Set("input_classes", classSeen)
	core.ParDo(len(cli), 6, func(k int) {
		cr := cli[k]
		h := hs[cr.i]
		res := core.Compile(core.CompileOpts{Binary: bin, Libs: libs, Target: cr.target, CPUSecs: 20}, filepath.Join(dirs[cr.i], "main.fer"))
		r.Eval()
		if res.Proc.WallOut {
			r.Inconclusive(h.id + " CLI wall watchdog")
			return
		}
		sig, det := c13Judge(res, h, dirs[cr.i], libs, cr.target != core.TypeCheck)
		if sig == "" {
			if cr.why == "confirm" {
				r.Inconclusive("in-process and CLI outcomes differ for " + h.id)
			} else {
				r.Nontrivial(h.id + "@cli" + string(cr.target) + h.files["main.fer"])
				r.Count("ok.cli-"+string(cr.target), 1)
			}
			return
		}
		id := h.id
		if !strings.HasPrefix(id, "probe:") {
			id = fmt.Sprintf("%s@%s", h.id, cr.target)
		}
		r.Count("failed.class."+h.class, 1)
		r.Fail(core.Failure{Case: id, Signature: sig, Detail: fmt.Sprintf("class=%s target=%s exit=%d\n%s\n--- main.fer ---\n%s", h.class, cr.target, res.Proc.Exit, det, core.Short(h.files["main.fer"], 1500)), Replay: h.files})
	})
	for i := 0; i < 3 && i < len(hs); i++ {
		h := hs[len(pins)+i]
		r.Sample(map[string]string{"class": h.class, "main.fer": core.Short(h.files["main.fer"], 400)})
	}
	return nil
}
