package props

import (
	"fmt"
	"strings"

	"verifrig/core"
	"verifrig/gen"
)

// C09 — behaviour does not depend on what the compiler can evaluate early.
// Relational monitor: an accepted generated program and its meaning-preserving rewrite
// (literal -> call of a function returning it; side-effect-free subexpression -> fresh immutable
// local just before its use; never-reassigned let with a constant initialiser -> const; statement
// wrapped in `if true { }`) must be treated the same and print the same output. The reference
// interpreter is consulted as a third witness to say which side is wrong.

func init() { register("C09", checkC09) }

func checkC09(c *Ctx) error {
	r := c.R
	r.Rule = "pairs (P, P') where P is a generated core-language program (C01 generator; emphasis on 8/16-bit arithmetic near the wrap point, integer division, comparisons feeding if, constants as indices and match patterns) and P' applies at random sites the rewrites literal->call (also inside if/while conditions and the start/end/step of range loops), subexpression->local, let->const, wrap-in-if-true; deterministic matrix bases (sub-word operators, casts, constant flow, parameters, stepped range loops with small and near-overflow spans) are rewritten several times each; both compiled and run natively (thorough: also wasm for the wasm-compatible profile); accept/reject and output must agree; non-trivial = a distinct pair with >=1 rewrite applied, both accepted, both ran and agreed on >=1 line"
	r.Assumptions = []string{"fixed-array index literals are not rewritten (documented rule that they be compile-time constants); a variant rejected only with T0028 would be excused", "rewrites never move expressions that can panic or have side effects"}
	n := c.N(30, 1200)
	gates := gatedFeatures(c)
	// deterministic bases first: the matrix programs (sub-word operators and casts used inside
	// expressions, constants used in unfolded positions and then as indices), each rewritten
	// with several independent random choices
	var mbases []matrixProg
	for _, mp := range matrixPrograms() {
		switch mp.name {
		case "ops-i8", "ops-i16", "ops-u8", "ops-u16", "ops-i32", "casts-from-i8", "casts-from-u16", "casts-from-i32", "const-flow", "params", "ranges", "stale-constants", "dynamic-array-growth", "literal-operands-i8", "literal-operands-i32", "literal-operands-u16", "literal-operands-i64":
			mbases = append(mbases, mp)
		}
	}
	mreps := c.N(3, 8)
	nm := len(mbases) * mreps
	core.ParDo(nm+n, 5, func(i int) {
		rng := r.Rng(i)
		wasm := !c.Quick() && i%3 == 0
		var p *gen.Program
		id := fmt.Sprintf("gen:%d:%d", c.Env.Seed, i-nm)
		prob := 35
		if i < nm {
			mp := mbases[i/mreps]
			p = mp.p
			id = fmt.Sprintf("matrix:%s:%d", mp.name, i%mreps)
			wasm = wasm && mp.wasmOK
			prob = 75
		} else {
			p = gen.Generate(rng, &gen.Config{Off: gates, MainLen: 8 + rng.IntN(12), Wasm: wasm})
		}
		rw := &gen.Rewriter{Rng: rng, P: prob}
		v := rw.Rewrite(p)
		ps, vs := p.Source(), v.Source()
		total := 0
		for _, k := range rw.Applied {
			total += k
		}
		if total == 0 || ps == vs {
			r.Count("no_rewrite_site", 1)
			return
		}
		targets := []core.Target{core.Native}
		if wasm {
			targets = append(targets, core.Wasm)
		}
		exp := gen.Run(p)
		for _, tg := range targets {
			base, err := buildAndRun(c, "c09b"+string(tg), i, ps, tg, false)
			if err != nil {
				r.Inconclusive(err.Error())
				return
			}
			vari, err := buildAndRun(c, "c09v"+string(tg), i, vs, tg, false)
			if err != nil {
				r.Inconclusive(err.Error())
				return
			}
			r.Eval()
			cid := id + "@" + string(tg)
			if base.Compile.Crash != "" || !base.Compile.Accepted() {
				r.Count("base_not_accepted(out of scope)", 1)
				continue
			}
			detail := func(extra string) string {
				return fmt.Sprintf("rewrites applied: %v\n%s\n--- base ---\n%s\n--- variant ---\n%s", rw.Applied, extra, ps, vs)
			}
			if !vari.Compile.Accepted() {
				only28 := vari.Compile.CleanReject()
				for _, d := range core.Errors(vari.Compile.Diags) {
					if d.Code != "T0028" {
						only28 = false
					}
				}
				if only28 && rw.MadeIndexNonConst {
					r.Count("excused_T0028", 1)
					continue
				}
				sig := "variant-rejected: " + core.Short(vari.Compile.FirstError(), 60)
				if vari.Compile.Crash != "" {
					sig = "variant-crashes-compiler: " + vari.Compile.Crash
				}
				r.Fail(core.Failure{Case: cid, Signature: sig, Detail: detail(core.Short(core.StripANSI(vari.Compile.Proc.Stderr), 700)), Replay: map[string]string{"base": ps, "variant": vs}})
				continue
			}
			if base.Run.Kind == core.RunTimeout || base.Run.Kind == core.RunError || vari.Run.Kind == core.RunTimeout || vari.Run.Kind == core.RunError {
				r.Inconclusive(cid + " run problem")
				continue
			}
			bl, vl := base.Run.Lines, vari.Run.Lines
			same := len(bl) == len(vl) && base.Run.Kind == vari.Run.Kind
			diffAt := -1
			for k := 0; same && k < len(bl); k++ {
				if bl[k] != vl[k] {
					same = false
					diffAt = k
				}
			}
			if !same {
				who := "reference agrees with neither"
				if sig, _ := compareWithReference(exp, base.Run); sig == "" {
					who = "the base matches the reference interpreter, the variant does not"
				} else if sig, _ := compareWithReference(exp, vari.Run); sig == "" {
					who = "the variant matches the reference interpreter, the base does not"
				}
				at := ""
				if diffAt >= 0 {
					at = fmt.Sprintf("first difference at line %d: base %q, variant %q\n", diffAt+1, bl[diffAt], vl[diffAt])
				}
				r.Fail(core.Failure{Case: cid, Signature: "rewrite-changed-behaviour", Detail: detail(fmt.Sprintf("%s%s\nbase: %d lines (%s), variant: %d lines (%s)", at, who, len(bl), base.Run.Kind, len(vl), vari.Run.Kind)), Replay: map[string]string{"base": ps, "variant": vs}})
				continue
			}
			if len(bl) > 0 {
				r.Nontrivial(ps + vs + string(tg))
			}
			for k, nn := range rw.Applied {
				r.Count("applied."+k, nn)
			}
			r.Count("agreeing_pairs."+string(tg), 1)
		}
		if i >= nm && i < nm+2 {
			r.Sample(map[string]interface{}{"rewrites": rw.Applied, "base": ps, "variant": vs})
		}
	})
	_ = strings.Join
	return nil
}
