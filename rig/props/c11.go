package props

import (
	"fmt"
	"math/big"
	"path/filepath"
	"strings"

	"verifrig/core"
)

// C11 — implicit numeric conversions never lose information.
// Verdict monitor over the real compiler (`ferret -t`): the 17x17 ordered pairs x assignment-like
// positions are executed exhaustively; the oracle is arithmetic (ranges, significand widths),
// independent of the compiler's table. Accepted pairs whose values both back ends can print are
// additionally executed natively on the boundary values of S.

func init() { register("C11", checkC11) }

type numTy struct {
	name   string
	float  bool
	signed bool
	bits   int // integer width, or float total width
}

var numTys = []numTy{
	{"i8", false, true, 8}, {"i16", false, true, 16}, {"i32", false, true, 32}, {"i64", false, true, 64}, {"i128", false, true, 128}, {"i256", false, true, 256},
	{"u8", false, false, 8}, {"u16", false, false, 16}, {"u32", false, false, 32}, {"u64", false, false, 64}, {"u128", false, false, 128}, {"u256", false, false, 256},
	{"f32", true, true, 32}, {"f64", true, true, 64}, {"f128", true, true, 128}, {"f256", true, true, 256},
	{"byte", false, false, 8},
}

// significand precision (bits, including the implicit one) and exponent width
func floatParams(bits int) (prec, expBits int) {
	switch bits {
	case 32:
		return 24, 8
	case 64:
		return 53, 11
	case 128:
		return 113, 15
	default:
		return 237, 19
	}
}

// lossless is the arithmetic oracle: every value of s is exactly representable in t.
func lossless(s, t numTy) bool {
	switch {
	case !s.float && !t.float:
		if s.signed == t.signed {
			return s.bits <= t.bits
		}
		if !s.signed && t.signed {
			return s.bits < t.bits
		}
		return false // signed -> unsigned loses negatives
	case !s.float && t.float:
		need := s.bits
		if s.signed {
			need = s.bits - 1 // magnitudes up to 2^(N-1); 2^(N-1) itself is a power of two
		}
		p, e := floatParams(t.bits)
		maxExp := 1<<(e-1) - 1
		return need <= p && s.bits <= maxExp
	case s.float && t.float:
		ps, es := floatParams(s.bits)
		pt, et := floatParams(t.bits)
		return ps <= pt && es <= et
	default:
		return false // float -> int
	}
}

type convPos struct {
	name string
	prog func(s, t numTy, srcExpr string) string
}

func litFor(t numTy) string {
	if t.float {
		return "1.5"
	}
	if t.name == "byte" {
		return "65"
	}
	return "1"
}

var convPositions = []convPos{
	{"let", func(s, t numTy, e string) string {
		return fmt.Sprintf("fn main() {\n    let x: %s = %s;\n    let y: %s = %s;\n}\n", s.name, litFor(s), t.name, e)
	}},
	{"assign", func(s, t numTy, e string) string {
		return fmt.Sprintf("fn main() {\n    let x: %s = %s;\n    let y: %s = %s;\n    y = %s;\n}\n", s.name, litFor(s), t.name, litFor(t), e)
	}},
	{"arg", func(s, t numTy, e string) string {
		return fmt.Sprintf("fn take(p: %s) { }\n\nfn main() {\n    let x: %s = %s;\n    take(%s);\n}\n", t.name, s.name, litFor(s), e)
	}},
	{"return", func(s, t numTy, e string) string {
		return fmt.Sprintf("fn conv(x: %s) -> %s {\n    return %s;\n}\n\nfn main() {\n    let x: %s = %s;\n    let y := conv(x);\n}\n", s.name, t.name, e, s.name, litFor(s))
	}},
	{"field-init", func(s, t numTy, e string) string {
		return fmt.Sprintf("type Box struct { .F: %s };\n\nfn main() {\n    let x: %s = %s;\n    let b: Box = { .F = %s };\n}\n", t.name, s.name, litFor(s), e)
	}},
	{"field-assign", func(s, t numTy, e string) string {
		return fmt.Sprintf("type Box struct { .F: %s };\n\nfn main() {\n    let x: %s = %s;\n    let b: Box = { .F = %s };\n    b.F = %s;\n}\n", t.name, s.name, litFor(s), litFor(t), e)
	}},
	{"array-elem", func(s, t numTy, e string) string {
		return fmt.Sprintf("fn main() {\n    let x: %s = %s;\n    let a: [2]%s = [%s, %s];\n}\n", s.name, litFor(s), t.name, litFor(t), e)
	}},
	{"dyn-array-elem", func(s, t numTy, e string) string {
		return fmt.Sprintf("fn main() {\n    let x: %s = %s;\n    let a: []%s = [%s];\n}\n", s.name, litFor(s), t.name, e)
	}},
	{"method-arg", func(s, t numTy, e string) string {
		return fmt.Sprintf("type Box struct { .F: i32 };\n\nfn (b: &Box) take(p: %s) { }\n\nfn main() {\n    let x: %s = %s;\n    let b: Box = { .F = 1 };\n    b.take(%s);\n}\n", t.name, s.name, litFor(s), e)
	}},
	{"catch-fallback", func(s, t numTy, e string) string {
		return fmt.Sprintf("fn res() -> str ! %s {\n    return %s;\n}\n\nfn main() {\n    let x: %s = %s;\n    let y := res() catch %s;\n}\n", t.name, litFor(t), s.name, litFor(s), e)
	}},
	{"coalescing-default", func(s, t numTy, e string) string {
		return fmt.Sprintf("fn main() {\n    let x: %s = %s;\n    let o: %s? = none;\n    let y: %s = o ?? %s;\n}\n", s.name, litFor(s), t.name, t.name, e)
	}},
	{"optional-init", func(s, t numTy, e string) string {
		return fmt.Sprintf("fn main() {\n    let x: %s = %s;\n    let o: %s? = %s;\n}\n", s.name, litFor(s), t.name, e)
	}},
	{"element-assign", func(s, t numTy, e string) string {
		return fmt.Sprintf("fn main() {\n    let x: %s = %s;\n    let a: []%s = [%s, %s];\n    a[1] = %s;\n}\n", s.name, litFor(s), t.name, litFor(t), litFor(t), e)
	}},
	{"fixed-element-assign", func(s, t numTy, e string) string {
		return fmt.Sprintf("fn main() {\n    let x: %s = %s;\n    let a: [2]%s = [%s, %s];\n    a[1] = %s;\n}\n", s.name, litFor(s), t.name, litFor(t), litFor(t), e)
	}},
	{"append-value", func(s, t numTy, e string) string {
		return fmt.Sprintf("fn main() {\n    let x: %s = %s;\n    let a: []%s = [%s];\n    append(&'a, %s);\n}\n", s.name, litFor(s), t.name, litFor(t), e)
	}},
	{"map-value", func(s, t numTy, e string) string {
		return fmt.Sprintf("fn main() {\n    let x: %s = %s;\n    let m: map[str]%s = {\"a\" => %s};\n}\n", s.name, litFor(s), t.name, e)
	}},
	{"closure-arg", func(s, t numTy, e string) string {
		return fmt.Sprintf("fn main() {\n    let x: %s = %s;\n    let f := fn(p: %s) -> i32 {\n        return 1;\n    };\n    let y := f(%s);\n}\n", s.name, litFor(s), t.name, e)
	}},
	{"literal-cast-field", func(s, t numTy, e string) string {
		return fmt.Sprintf("type Box struct { .F: %s };\n\nfn main() {\n    let x: %s = %s;\n    let b := { .F = %s } as Box;\n}\n", t.name, s.name, litFor(s), e)
	}},
	{"const-init", func(s, t numTy, e string) string {
		return fmt.Sprintf("fn main() {\n    let x: %s = %s;\n    const y: %s = %s;\n}\n", s.name, litFor(s), t.name, e)
	}},
	{"ref-write-through", func(s, t numTy, e string) string {
		return fmt.Sprintf("fn main() {\n    let x: %s = %s;\n    let z: %s = %s;\n    let r: &'%s = &'z;\n    r = %s;\n}\n", s.name, litFor(s), t.name, litFor(t), t.name, e)
	}},
	{"variadic-arg", func(s, t numTy, e string) string {
		return fmt.Sprintf("fn last(vals: ...%s) -> i32 {\n    return 1;\n}\n\nfn main() {\n    let x: %s = %s;\n    let y := last(%s);\n}\n", t.name, s.name, litFor(s), e)
	}},
	{"variadic-arg-later", func(s, t numTy, e string) string {
		return fmt.Sprintf("fn last(k: i32, vals: ...%s) -> i32 {\n    return k;\n}\n\nfn main() {\n    let x: %s = %s;\n    let z: %s = %s;\n    let y := last(1, z, %s);\n}\n", t.name, s.name, litFor(s), t.name, litFor(t), e)
	}},
	{"closure-return", func(s, t numTy, e string) string {
		return fmt.Sprintf("fn main() {\n    let x: %s = %s;\n    let f := fn(v: %s) -> %s {\n        return v;\n    };\n    let y := f(x);\n}\n", s.name, litFor(s), s.name, t.name)
	}},
}

func checkC11(c *Ctx) error {
	r := c.R
	r.Exhaustive = true
	r.Rule = "all ordered pairs (S,T), S != T, of the 17 numeric types x assignment-like positions {typed let, assignment, argument, return, struct field init, field assignment, fixed and dynamic array element, method argument, closure return, catch fallback, ?? default, optional initialiser, dynamic and fixed element assignment, append value, map literal value, closure argument, variadic argument (first and later slot), cast struct literal field, const initialiser, write through a &' reference}; each is one program compiled by the real compiler with -t; accepted-without-cast must imply lossless by the arithmetic oracle; every lossy pair must be rejected implicitly and accepted with `as`. non-trivial = a distinct (pair, position) program whose control (T := S) was accepted, so the verdict is attributable to the conversion"
	r.Assumptions = []string{"significand widths f32/f64/f128/f256 = 24/53/113/237 bits", "byte is an unsigned 8-bit numeric type", "the property is about static acceptance; run-time value preservation of accepted pairs is spot-checked natively for 8..64-bit integers and f32/f64"}
	bin, err := c.Env.Ferret()
	if err != nil {
		return err
	}
	libs, err := c.Env.Libs()
	if err != nil {
		return err
	}
	type cse struct {
		s, t numTy
		pos  convPos
		cast bool
		ctrl bool
	}
	var cases []cse
	for _, t := range numTys { // controls: identity conversions, one per (type, position)
		for _, p := range convPositions {
			cases = append(cases, cse{s: t, t: t, pos: p, ctrl: true})
		}
	}
	nctrl := len(cases)
	for _, s := range numTys {
		for _, t := range numTys {
			if s.name == t.name {
				continue
			}
			for _, p := range convPositions {
				cases = append(cases, cse{s: s, t: t, pos: p})
				if !lossless(s, t) && p.name != "closure-return" {
					cases = append(cases, cse{s: s, t: t, pos: p, cast: true})
				}
			}
		}
	}
	srcOf := func(cs cse) string {
		e := "x"
		if cs.cast {
			e = "x as " + cs.t.name
		}
		return cs.pos.prog(cs.s, cs.t, e)
	}
	idOf := func(cs cse) string {
		id := fmt.Sprintf("%s->%s@%s", cs.s.name, cs.t.name, cs.pos.name)
		if cs.cast {
			id += "+as"
		}
		return id
	}
	tcs := make([]TC, len(cases))
	for i, cs := range cases {
		tcs[i] = TC{ID: idOf(cs), Files: map[string]string{"main.fer": srcOf(cs)}}
	}
	results, dirs, err := c.TypecheckAll("c11", tcs)
	if err != nil {
		return err
	}
	ctrlOK := map[string]bool{}
	for i := 0; i < nctrl; i++ {
		cs := cases[i]
		ctrlOK[cs.t.name+"@"+cs.pos.name] = results[i].Accepted()
		if !results[i].Accepted() {
			r.Inconclusive(fmt.Sprintf("control %s@%s not accepted: %s %s", cs.t.name, cs.pos.name, results[i].FirstError(), results[i].Crash))
		}
	}
	accepted := make([]bool, len(cases))
	// confirm: every candidate violation found in-process is re-run through the real CLI
	confirm := func(i int, stillBad func(core.CompileResult) bool) bool {
		if !c.ConfirmBudget() {
			return false
		}
		res, err := c.ConfirmCLI(dirs[i])
		if err != nil {
			return false
		}
		if !stillBad(res) {
			r.Inconclusive("in-process and CLI verdicts differ for " + idOf(cases[i]))
			return false
		}
		return true
	}
	for i := nctrl; i < len(cases); i++ {
		cs := cases[i]
		id := idOf(cs)
		if !ctrlOK[cs.s.name+"@"+cs.pos.name] || !ctrlOK[cs.t.name+"@"+cs.pos.name] {
			continue
		}
		res := results[i]
		src := srcOf(cs)
		r.Eval()
		if res.Crash != "" || res.Proc.CPUOut || res.Proc.WallOut {
			if confirm(i, func(x core.CompileResult) bool { return x.Crash != "" || x.Proc.CPUOut }) {
				r.Fail(core.Failure{Case: id, Signature: "compiler-crash", Detail: res.Crash + "\n" + src, Replay: src})
			}
			continue
		}
		ok := lossless(cs.s, cs.t)
		acc := res.Accepted()
		accepted[i] = acc
		if cs.cast {
			if !acc {
				if confirm(i, func(x core.CompileResult) bool { return !x.Accepted() }) {
					r.Fail(core.Failure{Case: id, Signature: "explicit-cast-rejected", Detail: fmt.Sprintf("%s\n%s", res.FirstError(), src), Replay: src})
				}
				continue
			}
			r.Count("lossy_accepted_with_cast", 1)
			r.Nontrivial(id)
			continue
		}
		if acc && !ok {
			if confirm(i, func(x core.CompileResult) bool { return x.Accepted() }) {
				r.Fail(core.Failure{Case: id, Signature: "lossy-conversion-accepted-implicitly", Detail: fmt.Sprintf("%s -> %s is not value-preserving (oracle) but the compiler accepted it without `as` in position %s:\n%s", cs.s.name, cs.t.name, cs.pos.name, src), Replay: src})
			}
			continue
		}
		if acc {
			r.Count("accepted_implicit_lossless", 1)
		} else {
			r.Count("rejected_implicit", 1)
			if ok {
				r.Count("rejected_although_lossless(allowed)", 1)
			}
		}
		r.Nontrivial(id)
		if i%397 == 0 {
			r.Sample(map[string]interface{}{"case": id, "oracle_lossless": ok, "accepted_without_cast": acc, "program": src})
		}
	}
	// matrix of implicitly accepted pairs (position "let") for the evidence
	var acc []string
	for i, cs := range cases {
		if cs.pos.name == "let" && accepted[i] && !cs.cast && !cs.ctrl {
			acc = append(acc, cs.s.name+"->"+cs.t.name)
		}
	}
	r.Set("implicitly_accepted_pairs_at_let", strings.Join(acc, " "))

	// run-time check: for every implicitly accepted pair (<= 64 bits, integer source) the boundary
	// values of S are converted in every accepted position and printed (native)
	type rt struct {
		s, t numTy
		pos  map[string]bool
	}
	rtIdx := map[string]int{}
	var rts []rt
	for i, cs := range cases {
		if accepted[i] && !cs.cast && !cs.ctrl && cs.s.bits <= 64 && cs.t.bits <= 64 && cs.s.name != "byte" && cs.t.name != "byte" && !cs.s.float {
			k := cs.s.name + "->" + cs.t.name
			j, ok := rtIdx[k]
			if !ok {
				j = len(rts)
				rtIdx[k] = j
				rts = append(rts, rt{cs.s, cs.t, map[string]bool{}})
			}
			rts[j].pos[cs.pos.name] = true
		}
	}
	// position name -> statements that leave the converted value of `a` (type S) in variable bN (type T)
	runPos := []struct {
		name string
		text string // %[1]d = unique number, T and S substituted afterwards
	}{
		{"let", "let b%[1]d: T = a%[2]d;"},
		{"assign", "let b%[1]d: T = LIT;\n    b%[1]d = a%[2]d;"},
		{"arg", "let b%[1]d := takeRet(a%[2]d);"},
		{"return", "let b%[1]d := conv(a%[2]d);"},
		{"field-init", "let x%[1]d: Box = { .F = a%[2]d };\n    let b%[1]d := x%[1]d.F;"},
		{"field-assign", "let x%[1]d: Box = { .F = LIT };\n    x%[1]d.F = a%[2]d;\n    let b%[1]d := x%[1]d.F;"},
		{"array-elem", "let x%[1]d: [2]T = [LIT, a%[2]d];\n    let b%[1]d := x%[1]d[1];"},
		{"dyn-array-elem", "let x%[1]d: []T = [a%[2]d];\n    let b%[1]d := x%[1]d[0];"},
		{"method-arg", "let b%[1]d := hold.pass(a%[2]d);"},
		{"closure-return", "let b%[1]d := cret(a%[2]d);"},
		{"catch-fallback", "let b%[1]d := res(false) catch a%[2]d;"},
		{"element-assign", "let x%[1]d: []T = [LIT, LIT];\n    x%[1]d[1] = a%[2]d;\n    let b%[1]d := x%[1]d[1];"},
		{"fixed-element-assign", "let x%[1]d: [2]T = [LIT, LIT];\n    x%[1]d[1] = a%[2]d;\n    let b%[1]d := x%[1]d[1];"},
		{"append-value", "let x%[1]d: []T = [LIT];\n    append(&'x%[1]d, a%[2]d);\n    let b%[1]d := x%[1]d[1];"},
		{"closure-arg", "let b%[1]d := carg(a%[2]d);"},
		{"literal-cast-field", "let x%[1]d := { .F = a%[2]d } as Box;\n    let b%[1]d := x%[1]d.F;"},
		{"ref-write-through", "let z%[1]d: T = LIT;\n    let r%[1]d: &'T = &'z%[1]d;\n    r%[1]d = a%[2]d;\n    let b%[1]d := z%[1]d;"},
	}
	core.ParDo(len(rts), 0, func(i int) {
		s, t := rts[i].s, rts[i].t
		id := fmt.Sprintf("run:%s->%s", s.name, t.name)
		lo, hi := intRange(s)
		vals := []*big.Int{lo, new(big.Int).Add(lo, big.NewInt(1)), big.NewInt(0), big.NewInt(1), new(big.Int).Sub(hi, big.NewInt(1)), hi}
		if s.signed {
			vals = append(vals, big.NewInt(-1))
		}
		var sb strings.Builder
		sb.WriteString("import \"std/io\";\n\ntype Box struct { .F: T };\n\ntype Hold struct { .G: i32 };\n\nfn takeRet(p: T) -> T {\n    return p;\n}\n\nfn conv(x: S) -> T {\n    return x;\n}\n\nfn (h: &Hold) pass(p: T) -> T {\n    return p;\n}\n\nfn res(ok: bool) -> str ! T {\n    if ok {\n        return LIT;\n    }\n    return \"e\"!;\n}\n\nfn main() {\n")
		sb.WriteString("    let hold: Hold = { .G = 1 };\n    let cret := fn(v: S) -> T {\n        return v;\n    };\n    let carg := fn(p: T) -> T {\n        return p;\n    };\n")
		var want, where []string
		n := 0
		for k, v := range vals {
			fmt.Fprintf(&sb, "    let a%d: S = %s;\n", k, v.String())
			for _, rp := range runPos {
				if !rts[i].pos[rp.name] {
					continue
				}
				if rp.name == "catch-fallback" && t.float {
					continue // a result function with a float ok type does not assemble natively (vendored QBE; unrelated to the conversion, reported as an error by the compiler)
				}
				n++
				sb.WriteString("    " + fmt.Sprintf(rp.text, n, k) + "\n")
				fmt.Fprintf(&sb, "    io::Println(b%d);\n", n)
				if t.float {
					want = append(want, "f:"+v.String())
				} else {
					want = append(want, v.String())
				}
				where = append(where, rp.name)
			}
		}
		sb.WriteString("}\n")
		src := strings.NewReplacer("LIT", litFor(t), "T", t.name, "S", s.name).Replace(sb.String())
		d := c.Env.CaseDir("c11", fmt.Sprintf("run%d", i))
		f := filepath.Join(d, "main.fer")
		core.WriteFile(f, src)
		res := core.Compile(core.CompileOpts{Binary: bin, Libs: libs, Target: core.Native}, f)
		r.Eval()
		if !res.Accepted() {
			r.Fail(core.Failure{Case: id, Signature: "implicitly-converting-program-not-compiled: " + core.Short(res.FirstError(), 60), Detail: res.FirstError() + " " + res.Crash + "\n" + core.Short(core.StripANSI(res.Proc.Stderr), 600) + "\n" + src, Replay: src})
			return
		}
		run := core.RunNative(res.Artifact, 20)
		if run.Kind != core.RunExit0 || len(run.Lines) != len(want) {
			r.Fail(core.Failure{Case: id, Signature: "spot-check-run-" + string(run.Kind), Detail: fmt.Sprintf("lines=%d expected=%d stderr=%s\n%s", len(run.Lines), len(want), core.Short(run.Proc.Stderr, 300), src), Replay: src})
			return
		}
		for k, w := range want {
			got := run.Lines[k]
			ok := got == w
			if strings.HasPrefix(w, "f:") {
				gf, _, err := big.ParseFloat(got, 10, 200, big.ToNearestEven)
				wf, _, _ := big.ParseFloat(w[2:], 10, 200, big.ToNearestEven)
				ok = err == nil && gf.Cmp(wf) == 0
			}
			if !ok {
				r.Fail(core.Failure{Case: id + "@" + where[k], Signature: "conversion-changed-value", Detail: fmt.Sprintf("value %s of %s converted implicitly to %s in position %s printed %q\n%s", strings.TrimPrefix(w, "f:"), s.name, t.name, where[k], got, src), Replay: src})
				return
			}
			r.Count("runtime_values_ok."+where[k], 1)
		}
		r.Nontrivial(id)
		r.Count("runtime_spot_checks_ok", 1)
	})
	return nil
}

func intRange(t numTy) (lo, hi *big.Int) {
	if t.signed {
		hi = new(big.Int).Sub(new(big.Int).Lsh(big.NewInt(1), uint(t.bits-1)), big.NewInt(1))
		lo = new(big.Int).Neg(new(big.Int).Lsh(big.NewInt(1), uint(t.bits-1)))
		return
	}
	return big.NewInt(0), new(big.Int).Sub(new(big.Int).Lsh(big.NewInt(1), uint(t.bits)), big.NewInt(1))
}
