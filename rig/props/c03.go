package props

import (
	"fmt"
	"path/filepath"
	"strings"

	"verifrig/core"
	"verifrig/gen"
)

// C03 — statically ill-typed programs are rejected.
// Verdict monitor by construction: base = a generated well-typed program accepted by the real
// compiler; mutant = base with exactly one violation from the catalogue injected as a
// self-contained snippet at a random site inside a random context (main, function, method,
// closure, if / else / while / for body, match arm, block). The mutant must be rejected with an
// error diagnostic and leave no artifact.

func init() { register("C03", checkC03) }

type c03Rule struct {
	name  string
	stmt  []string // snippets inserted as a statement (self-contained)
	decls []string // snippets added as top-level declarations (function-level rules)
}

const c03Support = `type InjS struct { .A: i32, .B: i64 };

fn injRes(a: i32) -> str ! i32 {
    if a == 0 {
        return "zero"!;
    }
    return a;
}

fn injTake(a: i32, b: i64) -> i32 {
    return a;
}

fn (s: &InjS) injGet(k: i32) -> i32 {
    return s.A + k;
}

fn injSum(v: []i32) -> i32 {
    return len(v);
}

fn injTakeMap(m: map[str]i32) -> i32 {
    return 1;
}

fn injRes0() -> str ! i32 {
    return "never"!;
}

fn (s: &InjS) injTry() -> str ! i32 {
    return s.A;
}

fn (s: &InjS) injTry1(k: i32) -> str ! i32 {
    return s.A + k;
}`

var c03Rules = []c03Rule{
	{name: "mixed-type-arithmetic", stmt: []string{
		"{\n    let ia: i32 = 1;\n    let ib: i64 = 2;\n    let ic := ia + ib;\n}",
		"{\n    let ia: u8 = 1;\n    let ib: i8 = 2;\n    let ic := ia * ib;\n}",
		"{\n    let ia: i32 = 1;\n    let fb: f64 = 2.5;\n    let ic := ia - fb;\n}"}},
	{name: "implicit-narrowing", stmt: []string{
		"{\n    let ia: i64 = 1;\n    let ib: i32 = ia;\n}",
		"{\n    let ia: u16 = 1;\n    let ib: u8 = ia;\n}",
		"{\n    let ia: i32 = 1;\n    let ib: i16 = 0;\n    ib = ia;\n}",
		"{\n    let ia: u32 = 1;\n    let ib: i32 = ia;\n}",
		"{\n    let ia: i64 = 1;\n    let ib: i32 = 0;\n    ib += ia;\n}",
		// the same narrowing inside composite types: map values and keys, dynamic and fixed arrays, optionals, references, function results
		"{\n    let ima := {\"a\" => 1} as map[str]i64;\n    let imb: map[str]i32 = ima;\n}",
		"{\n    let ima := {1 => \"a\"} as map[i64]str;\n    let imb: map[i32]str = ima;\n}",
		"{\n    let ima := {\"a\" => 1} as map[str]i64;\n    let iq := injTakeMap(ima);\n}",
		"{\n    let ida: []i64 = [1, 2];\n    let idb: []i32 = ida;\n}",
		"{\n    let ifa: [2]i64 = [1, 2];\n    let ifb: [2]i32 = ifa;\n}",
		"{\n    let ioa: i64? = 5;\n    let iob: i32? = ioa;\n}",
		"{\n    let ixa: i64 = 1;\n    let ira: &i64 = &ixa;\n    let irb: &i32 = ira;\n}",
		"{\n    let ifn := fn() -> i64 {\n        return 1;\n    };\n    let ifm: fn() -> i32 = ifn;\n}",
		"{\n    let ima := {\"a\" => 1} as map[str]u32;\n    let imb: map[str]i32 = ima;\n}"}},
	{name: "float-to-int-implicit", stmt: []string{
		"{\n    let fa: f64 = 1.5;\n    let ib: i32 = fa;\n}",
		"{\n    let ib: i32 = 2.5;\n}",
		"{\n    let fa: f32 = 1.5;\n    let ib: i64 = 0;\n    ib = fa;\n}",
		"{\n    let iq: i32 = 1;\n    iq += 1.5;\n}",
		"{\n    let iq: i32 = 1;\n    let fa: f64 = 2.0;\n    iq *= fa;\n}",
		"{\n    let ima := {\"a\" => 1.5} as map[str]f64;\n    let imb: map[str]i32 = ima;\n}",
		"{\n    let ima := {\"a\" => 1.5} as map[str]f64;\n    let iq := injTakeMap(ima);\n}",
		"{\n    let ida: []f64 = [1.5];\n    let idb: []i32 = ida;\n}",
		"{\n    let ioa: f32? = 1.5;\n    let iob: i64? = ioa;\n}"}},
	{name: "non-bool-condition", stmt: []string{
		"{\n    let ia: i32 = 1;\n    if ia {\n        let iz: i32 = 0;\n    }\n}",
		"{\n    let ia: i32 = 1;\n    while ia {\n        break;\n    }\n}",
		"{\n    let sa := \"x\";\n    if sa {\n        let iz: i32 = 0;\n    }\n}",
		"{\n    let ia: i32 = 1;\n    if ia > 5 {\n        let iz: i32 = 0;\n    } else if ia {\n        let iy: i32 = 1;\n    }\n}",
		"{\n    let ia: i32 = 1;\n    if ia > 5 {\n        let iz: i32 = 0;\n    } else if ia < 0 {\n        let iy: i32 = 1;\n    } else if ia {\n        let ix: i32 = 2;\n    } else {\n        let iw: i32 = 3;\n    }\n}",
		"{\n    let fa: f64 = 1.0;\n    while fa {\n        break;\n    }\n}"}},
	{name: "non-bool-logical-operand", stmt: []string{
		"{\n    let ia: i32 = 1;\n    let bb := ia && true;\n}",
		"{\n    let ia: i32 = 1;\n    let bb := true || ia;\n}",
		"{\n    let ia: i32 = 1;\n    let bb := !ia;\n}"}},
	{name: "wrong-argument-count", stmt: []string{
		"{\n    let ir := injTake(1);\n}",
		"{\n    let ir := injTake(1, 2, 3);\n}",
		"{\n    let ir := injTake();\n}"}},
	{name: "wrong-argument-type", stmt: []string{
		"{\n    let ir := injTake(\"x\", 2);\n}",
		"{\n    let ir := injTake(true, 2);\n}",
		"{\n    let ia: i64 = 5;\n    let ir := injTake(ia, 2);\n}"}},
	{name: "undefined-name", stmt: []string{
		"{\n    let iq := undefinedName + 1;\n}",
		"{\n    undefinedFn(1);\n}",
		"{\n    let iq: UndefinedType = 1;\n}"}},
	{name: "redeclared-name", stmt: []string{
		"{\n    let dup: i32 = 1;\n    let dup: i32 = 2;\n}",
		"{\n    let dup: i32 = 1;\n    const dup: i32 = 2;\n}"}},
	{name: "wrong-return-type", decls: []string{
		"fn injBad() -> i32 {\n    return \"s\";\n}",
		"fn injBad() -> str {\n    return 5;\n}",
		"fn injBad() -> i8 {\n    let ia: i64 = 1;\n    return ia;\n}"},
		stmt: []string{"let injC := fn() -> i32 {\n    return true;\n};"}},
	{name: "missing-return-value", decls: []string{
		"fn injBad() -> i32 {\n    return;\n}",
		"fn injBad(a: i32) -> i32 {\n    if a > 0 {\n        return;\n    }\n    return 1;\n}"},
		stmt: []string{"let injC := fn() -> i32 {\n    return;\n};"}},
	{name: "optional-used-as-value", stmt: []string{
		"{\n    let io: i32? = 5;\n    let iv: i32 = io;\n}",
		"{\n    let io: i32? = 5;\n    let ir := injTake(io, 2);\n}",
		"{\n    let io: i32? = none;\n    let iv: i32 = io + 1;\n}",
		"{\n    let io: i32? = 5;\n    let ib: i32? = none;\n    if io != none || ib != none {\n        let iv: i32 = io;\n    }\n}",
		"{\n    let io: i32? = 5;\n    let ib: i32? = none;\n    if io == none && ib == none {\n        let iz: i32 = 0;\n    } else {\n        let iv: i32 = ib;\n    }\n}",
		"{\n    let io: i32? = 5;\n    if io == none {\n        let iv: i32 = io;\n    }\n}"}},
	{name: "struct-field-errors", stmt: []string{
		"{\n    let is: InjS = { .A = 1 };\n}",
		"{\n    let is: InjS = { .A = 1, .B = 2, .C = 3 };\n}",
		"{\n    let is: InjS = { .A = \"x\", .B = 2 };\n}",
		"{\n    let is: InjS = { .A = 1, .B = 2 };\n    let iv := is.Nope;\n}"}},
	{name: "too-many-array-initialisers", stmt: []string{
		"{\n    let ia: [2]i32 = [1, 2, 3];\n}",
		"{\n    let ia: [1]u8 = [1, 2, 3, 4, 5, 6];\n}"}},
	{name: "calling-a-non-function", stmt: []string{
		"{\n    let iv: i32 = 1;\n    let iw := iv(2);\n}",
		"{\n    let is := \"x\";\n    is();\n}"}},
	{name: "unhandled-result", stmt: []string{
		"{\n    let ir: i32 = injRes(1);\n}",
		"{\n    let ir := injRes(1) + 1;\n}",
		"{\n    injRes(1);\n}",
		"{\n    let ir := injRes(1);\n}",
		"{\n    injRes0();\n}",
		"{\n    let ir := injRes0();\n}",
		"{\n    let ir: i32 = injRes0();\n}",
		"{\n    let ih: InjS = { .A = 1, .B = 2 };\n    ih.injTry();\n}",
		"{\n    let ih: InjS = { .A = 1, .B = 2 };\n    let ir := ih.injTry();\n}",
		"{\n    let ih: InjS = { .A = 1, .B = 2 };\n    let ir := ih.injTry1(3);\n}",
		"{\n    let ic := fn() -> str ! i32 {\n        return 1;\n    };\n    ic();\n}"}},
	{name: "error-return-from-non-result-function", decls: []string{
		"fn injBad() -> i32 {\n    return \"e\"!;\n}",
		"fn injBad() {\n    return \"e\"!;\n}"}},
}

// c03BadExprs are ill-typed expressions of nominal type i32 (or bool): pre declares what they use.
var c03BadExprs = []struct{ rule, pre, expr string; isBool bool }{
	{"mixed-type-arithmetic", "let ia: i32 = 1;\n    let ib: i64 = 2;", "ia + ib", false},
	{"non-bool-logical-operand", "let ia: i32 = 1;", "(ia && true)", true},
	{"non-bool-logical-operand", "let ia: i32 = 1;", "!ia", true},
	{"wrong-argument-count", "", "injTake(1)", false},
	{"wrong-argument-type", "", "injTake(\"x\", 2)", false},
	{"undefined-name", "", "undefinedName", false},
	{"optional-used-as-value", "let io: i32? = 5;", "(io + 1)", false},
	{"struct-field-errors", "let is: InjS = { .A = 1, .B = 2 };", "is.Nope", false},
	{"calling-a-non-function", "let iv: i32 = 1;", "iv(2)", false},
	{"unhandled-result", "", "(injRes(1) + 1)", false},
}

// c03Wrappers put an expression E (i32 unless forBool) into an expression context.
var c03Wrappers = []struct{ name, pre, text string; forBool bool }{
	{"call-argument", "", "let iw := injTake($E, 2);", false},
	{"nested-call-argument", "", "let iw := injTake(injTake($E, 1), 2);", false},
	{"struct-literal-field", "", "let iw: InjS = { .A = $E, .B = 2 };", false},
	{"array-literal-element", "", "let iw := [1, $E];", false},
	{"index-expression", "let ix: []i32 = [1, 2, 3];", "let iw := ix[$E];", false},
	{"cast-operand", "", "let iw := ($E) as i64;", false},
	{"comparison-in-condition", "", "if $E == 1 {\n        let iz: i32 = 0;\n    }", false},
	{"closure-return", "", "let iw := fn() -> i32 {\n        return $E;\n    };", false},
	{"catch-fallback", "", "let iw := injRes(1) catch $E;", false},
	{"catch-call-argument", "", "let iw := injRes($E) catch 0;", false},
	{"match-subject", "", "match $E {\n        1 => { let iz: i32 = 0; }\n        _ => { let iz: i32 = 1; }\n    }", false},
	{"assignment-rhs", "let iy: i32 = 0;", "iy = $E;", false},
	{"compound-assignment-rhs", "let iy: i32 = 0;", "iy += $E;", false},
	{"element-assignment-rhs", "let ix: []i32 = [1, 2, 3];", "ix[0] = $E;", false},
	{"field-assignment-rhs", "let iv2: InjS = { .A = 1, .B = 2 };", "iv2.A = $E;", false},
	{"parenthesised-operand", "", "let iw := 2 * ($E);", false},
	{"unary-minus-operand", "", "let iw := -($E);", false},
	{"print-argument", "", "io::Println($E);", false},
	{"if-condition", "", "if $E {\n        let iz: i32 = 0;\n    }", true},
	{"while-condition", "", "while $E {\n        break;\n    }", true},
	{"logical-operand", "", "let iw := true && $E;", true},
	{"not-operand", "", "let iw := !($E);", true},
	{"range-start", "", "for rq in $E..3 {\n        let iz: i32 = 0;\n    }", false},
	{"range-end", "", "for rq in 0..$E {\n        let iz: i32 = 0;\n    }", false},
	{"range-inclusive-end", "", "for rq in 0..=$E {\n        let iz: i32 = 0;\n    }", false},
	{"range-step", "", "for rq in 0..9:$E {\n        let iz: i32 = 0;\n    }", false},
	{"range-two-variable", "", "for rk, rq in 0..$E {\n        let iz: i32 = 0;\n    }", false},
	{"for-over-array-literal", "", "for rq in [1, $E] {\n        let iz: i32 = 0;\n    }", false},
	{"for-over-call-argument", "", "for rq in [injTake($E, 2), 1] {\n        let iz: i32 = 0;\n    }", false},
	{"append-value", "let ix: []i32 = [1, 2, 3];", "append(&'ix, $E);", false},
	{"map-literal-value", "", "let im := {\"a\" => $E} as map[str]i32;", false},
	{"coalescing-default", "let iop: i32? = none;", "let iw := iop ?? $E;", false},
	{"power-operand", "", "let iw := 2 ** ($E);", false},
	{"string-index", "let istr := \"abcdefgh\";", "let iw := istr[$E];", false},
	{"catch-handler-statement", "", "let iw := injRes(1) catch ier {\n        let iz: i32 = $E;\n    } 0;", false},
	{"const-initialiser", "", "const ick: i32 = $E;", false},
	{"typed-let-initialiser", "", "let iw: i32 = $E;", false},
	{"optional-initialiser", "", "let iw: i32? = $E;", false},
	{"cast-composite-field", "", "let iw := { .A = $E, .B = 2 } as InjS;", false},
	{"closure-call-argument", "let icl := fn(a: i32) -> i32 {\n        return a;\n    };", "let iw := icl($E);", false},
	{"method-call-argument", "let iv2: InjS = { .A = 1, .B = 2 };", "let iw := iv2.injGet($E);", false},
	{"array-argument-element", "", "let iw := injSum([1, $E]);", false},
	{"string-concat-operand", "", "let iw := \"n=\" + ($E);", false},
	{"while-comparison", "", "while $E == 12345 {\n        break;\n    }", false},
	{"nested-index", "let ix: []i32 = [1, 2, 3];", "let iw := ix[ix[$E]];", false},
	{"compound-element-rhs", "let ix: []i32 = [1, 2, 3];", "ix[1] += $E;", false},
	{"match-arm-statement", "", "match 1 {\n        1 => { let iz: i32 = $E; }\n        _ => { let iz: i32 = 1; }\n    }", false},
	{"else-if-condition", "", "if false {\n        let iz: i32 = 0;\n    } else if $E {\n        let iy: i32 = 1;\n    }", true},
	{"bool-let-initialiser", "", "let iw: bool = $E;", true},
	{"logical-or-left", "", "let iw := $E || false;", true},
	{"bool-comparison", "", "let iw := ($E) == true;", true},
	{"bool-call-argument", "let icb := fn(a: bool) -> bool {\n        return a;\n    };", "let iw := icb($E);", true},
}

// c03ExprSpellings returns rule -> extra statement spellings (violation nested in an expression context).
func c03ExprSpellings(dropped map[string]bool) (map[string][]string, map[string]string) {
	out := map[string][]string{}
	ctxOf := map[string]string{}
	for _, be := range c03BadExprs {
		for _, w := range c03Wrappers {
			if w.forBool != be.isBool || dropped[w.name] {
				continue
			}
			var b strings.Builder
			b.WriteString("{\n")
			for _, pre := range []string{be.pre, w.pre} {
				if pre != "" {
					b.WriteString("    " + pre + "\n")
				}
			}
			b.WriteString("    " + strings.ReplaceAll(w.text, "$E", be.expr) + "\n}")
			out[be.rule] = append(out[be.rule], b.String())
			ctxOf[b.String()] = w.name
		}
	}
	return out, ctxOf
}

func checkC03(c *Ctx) error {
	r := c.R
	r.Rule = "base = generated well-typed program accepted by the real compiler; mutant = base + exactly one violation from the 17-rule catalogue (several spellings per rule) injected as a self-contained snippet at a random site of a random context {main, function, method, closure, if, else, while, for, match-arm, block}, or as an extra top-level function for function-level rules; ill-typed expressions are also nested in 52 expression contexts (call/method/closure arguments, literals of structs, arrays and maps, indices, casts, conditions, match subjects, assignment right-hand sides, range start/end/step, iterated literals, append, ??, **, catch handlers and fallbacks, const/optional initialisers, string operands ...), each context first validated with a well-typed operand, and every (expression, context) pair is checked once in a minimal program; every mutant must be rejected (exit 1, >=1 error diagnostic, no crash); a sample of mutants per rule is also compiled natively to confirm that no executable is left. non-trivial = a distinct (base, rule, spelling, site) mutant whose base was accepted and whose verdict was decided"
	r.Assumptions = []string{"snippets declare every name they use (prefix i*/inj*), so the base's typing is unaffected: exactly one rule is violated by construction"}
	nBase := c.N(14, 400)
	gates := gatedFeatures(c)
	type mut struct {
		id, rule, spelling, ctx string
		src                     string
		base                    int // index of the generated base, -1 = minimal program
	}
	var bases []string
	var muts []mut
	// controls: every expression context, filled with a well-typed expression, must be accepted in
	// a minimal program; a context that is not is dropped (reported as inconclusive), because a
	// rejection of its mutants would prove nothing
	minimal := func(snippet string) string {
		return "import \"std/io\";\n\n" + c03Support + "\n\nfn main() {\n    " + snippet + "\n}\n"
	}
	wrapSnippet := func(pre1, pre2, text, e string) string {
		var b strings.Builder
		b.WriteString("{\n")
		for _, pre := range []string{pre1, pre2} {
			if pre != "" {
				b.WriteString("    " + pre + "\n")
			}
		}
		b.WriteString("    " + strings.ReplaceAll(text, "$E", e) + "\n}")
		return b.String()
	}
	var ctl []TC
	for _, w := range c03Wrappers {
		good := "1"
		if w.forBool {
			good = "true"
		}
		ctl = append(ctl, TC{ID: "control:" + w.name, Files: map[string]string{"main.fer": minimal(wrapSnippet("", w.pre, w.text, good))}})
	}
	ctlRes, _, err := c.TypecheckAll("c03ctl", ctl)
	if err != nil {
		return err
	}
	dropped := map[string]bool{}
	for i, w := range c03Wrappers {
		r.Eval()
		if !ctlRes[i].Accepted() {
			dropped[w.name] = true
			r.Inconclusive(fmt.Sprintf("expression context %s is not accepted with a well-typed operand (%s): dropped", w.name, ctlRes[i].FirstError()))
			continue
		}
		r.Count("contexts_with_accepted_control", 1)
	}
	exprSp, exprCtx := c03ExprSpellings(dropped)
	// every (ill-typed expression, context) pair once in a minimal program, independent of the
	// rotation over generated bases
	for bi, be := range c03BadExprs {
		for _, w := range c03Wrappers {
			if w.forBool != be.isBool || dropped[w.name] {
				continue
			}
			sn := wrapSnippet(be.pre, w.pre, w.text, be.expr)
			muts = append(muts, mut{id: fmt.Sprintf("min:%s:%s:%d", be.rule, w.name, bi), rule: be.rule, spelling: sn, ctx: "minimal/" + w.name, src: minimal(sn), base: -1})
		}
	}
	rules := make([]c03Rule, len(c03Rules))
	for i, rule := range c03Rules {
		rules[i] = rule
		// alternate plain and expression-context spellings so both are covered early
		var merged []string
		plain, nested := rule.stmt, exprSp[rule.name]
		for len(plain) > 0 || len(nested) > 0 {
			if len(plain) > 0 {
				merged = append(merged, plain[0])
				plain = plain[1:]
			}
			if len(nested) > 0 {
				merged = append(merged, nested[0])
				nested = nested[1:]
			}
		}
		rules[i].stmt = merged
	}
	for b := 0; b < nBase; b++ {
		rng := r.Rng(b)
		p := gen.Generate(rng, &gen.Config{Off: gates, MainLen: 8 + rng.IntN(10)})
		p.RawDecls = append(p.RawDecls, c03Support)
		bases = append(bases, p.Source())
		sites := gen.Sites(p)
		for ri, rule := range rules {
			// k spellings per (base, rule), rotating so that 14 bases cover every spelling of every
			// rule; statement snippets go to a random site
			nsp := len(rule.stmt) + len(rule.decls)
			k := c.N(4, 2)
			if k > nsp {
				k = nsp
			}
			for j := 0; j < k; j++ {
				sp := (b*k + j + ri) % nsp
				if !c.Quick() && b%2 == 1 {
					sp = rng.IntN(nsp)
				}
				id := fmt.Sprintf("gen:%d:%d:%s:%d", c.Env.Seed, b, rule.name, sp)
				if sp < len(rule.stmt) {
					site := sites[rng.IntN(len(sites))]
					at := rng.IntN(site.Max + 1)
					undo := gen.InsertAt(site, at, &gen.Raw{Text: rule.stmt[sp]})
					cx := site.Context
					if w := exprCtx[rule.stmt[sp]]; w != "" {
						cx += "/" + w
					}
					muts = append(muts, mut{id: id, rule: rule.name, spelling: rule.stmt[sp], ctx: cx, src: p.Source(), base: b})
					undo()
				} else {
					d := rule.decls[sp-len(rule.stmt)]
					p.RawDecls = append(p.RawDecls, d)
					muts = append(muts, mut{id: id, rule: rule.name, spelling: d, ctx: "top-level-function", src: p.Source(), base: b})
					p.RawDecls = p.RawDecls[:len(p.RawDecls)-1]
				}
			}
		}
	}
	var tcs []TC
	for b, s := range bases {
		tcs = append(tcs, TC{ID: fmt.Sprintf("base:%d", b), Files: map[string]string{"main.fer": s}})
	}
	for _, m := range muts {
		tcs = append(tcs, TC{ID: m.id, Files: map[string]string{"main.fer": m.src}})
	}
	results, dirs, err := c.TypecheckAll("c03", tcs)
	if err != nil {
		return err
	}
	baseOK := make([]bool, len(bases))
	for b := range bases {
		baseOK[b] = results[b].Accepted()
		if !baseOK[b] {
			r.Inconclusive(fmt.Sprintf("base %d not accepted: %s %s", b, results[b].FirstError(), results[b].Crash))
		}
	}
	matrix := map[string]int{}
	spellSeen := map[string]bool{}
	sampled := map[string]int{}
	var nativeSample []int
	for k, m := range muts {
		if m.base >= 0 && !baseOK[m.base] {
			continue
		}
		res := results[len(bases)+k]
		r.Eval()
		if res.Crash != "" || res.Proc.CPUOut {
			if cli, _ := c.ConfirmCLI(dirs[len(bases)+k]); cli.Crash != "" || cli.Proc.CPUOut {
				r.Fail(core.Failure{Case: m.id, Signature: "compiler-crash: " + cli.Crash, Detail: fmt.Sprintf("rule %s in context %s\n%s\n%s", m.rule, m.ctx, m.spelling, m.src), Replay: m.src})
			}
			continue
		}
		if res.Accepted() {
			if !c.ConfirmBudget() {
				continue
			}
			if cli, _ := c.ConfirmCLI(dirs[len(bases)+k]); !cli.Accepted() {
				r.Inconclusive("in-process and CLI verdicts differ for " + m.id)
				continue
			}
			r.Fail(core.Failure{Case: m.id, Signature: "ill-typed-program-accepted: " + m.rule, Detail: fmt.Sprintf("rule %s, context %s, injected:\n%s\n--- program ---\n%s", m.rule, m.ctx, m.spelling, m.src), Replay: m.src})
			continue
		}
		if !res.CleanReject() {
			r.Fail(core.Failure{Case: m.id, Signature: "unclean-reject", Detail: fmt.Sprintf("exit=%d errors=%d\n%s", res.Proc.Exit, len(core.Errors(res.Diags)), m.src), Replay: m.src})
			continue
		}
		r.Nontrivial(m.src)
		matrix[m.rule+" x "+m.ctx]++
		spellSeen[m.spelling] = true
		r.Count("rejected."+m.rule, 1)
		if sampled[m.rule] < c.N(1, 6) {
			sampled[m.rule]++
			nativeSample = append(nativeSample, len(bases)+k)
		}
	}
	r.Set("rule_x_context_matrix", matrix)
	r.Set("distinct_spellings_rejected", len(spellSeen))
	// native build of a sample: no artifact may be left behind
	bin, err := c.Env.Ferret()
	if err != nil {
		return err
	}
	libs, _ := c.Env.Libs()
	core.ParDo(len(nativeSample), 5, func(k int) {
		ti := nativeSample[k]
		res := core.Compile(core.CompileOpts{Binary: bin, Libs: libs, Target: core.Native}, filepath.Join(dirs[ti], "main.fer"))
		r.Eval()
		if res.Exists || res.Proc.Exit == 0 {
			r.Fail(core.Failure{Case: tcs[ti].ID + "@native", Signature: "artifact-or-success-for-ill-typed-program", Detail: fmt.Sprintf("exit=%d artifact=%v\n%s", res.Proc.Exit, res.Exists, tcs[ti].Files["main.fer"]), Replay: tcs[ti].Files["main.fer"]})
			return
		}
		r.Count("native_builds_left_no_artifact", 1)
	})
	if len(muts) > 0 {
		r.Sample(map[string]interface{}{"rule": muts[0].rule, "context": muts[0].ctx, "injected": muts[0].spelling})
		r.Sample(map[string]interface{}{"rule": muts[len(muts)/2].rule, "context": muts[len(muts)/2].ctx, "program": core.Short(muts[len(muts)/2].src, 1500)})
	}
	return nil
}
