package props

import (
	"fmt"
	"math/big"
	"math/rand/v2"
	"strings"

	"compiler/verifhook"

	"verifrig/core"
)

// C18 — composite values keep every component intact (layout soundness).
//  (a) invariant monitor over the compiler's own DataLayout (through the verif hook) for random
//      type expressions and pointer sizes 4 and 8: fields do not overlap, lie inside SizeOf, are
//      aligned, array stride = element size and keeps elements aligned, the optional / result
//      discriminant lies inside the value;
//  (b) reference-model monitor over generated programs that fill every leaf of a composite with a
//      distinct sentinel, overwrite one leaf, copy the composite, wrap it in an optional, and
//      print all leaves plus neighbouring canary variables — natively and on wasm.

func init() { register("C18", checkC18) }

var c18Prims = []struct {
	name string
	size int
}{{"i8", 1}, {"u8", 1}, {"bool", 1}, {"byte", 1}, {"i16", 2}, {"u16", 2}, {"i32", 4}, {"u32", 4}, {"f32", 4}, {"i64", 8}, {"u64", 8}, {"f64", 8}, {"i128", 16}, {"u128", 16}, {"f128", 16}, {"i256", 32}, {"u256", 32}, {"f256", 32}}

func c18RandType(rng *rand.Rand, depth int) *verifhook.TypeDesc {
	k := rng.IntN(10)
	if depth <= 0 {
		k = rng.IntN(4)
	}
	switch {
	case k < 3:
		p := c18Prims[rng.IntN(len(c18Prims))]
		return &verifhook.TypeDesc{Kind: "prim", Name: p.name}
	case k == 3:
		if rng.IntN(2) == 0 {
			return &verifhook.TypeDesc{Kind: "prim", Name: "str"}
		}
		return &verifhook.TypeDesc{Kind: "ref", Elem: c18RandType(rng, 0)}
	case k < 7:
		n := 1 + rng.IntN(5)
		t := &verifhook.TypeDesc{Kind: "struct"}
		for i := 0; i < n; i++ {
			t.Fields = append(t.Fields, verifhook.FieldDesc{Name: fmt.Sprintf("f%d", i), Type: *c18RandType(rng, depth-1)})
		}
		return t
	case k == 7:
		return &verifhook.TypeDesc{Kind: "array", Len: 1 + rng.IntN(5), Elem: c18RandType(rng, depth-1)}
	case k == 8:
		return &verifhook.TypeDesc{Kind: "optional", Elem: c18RandType(rng, depth-1)}
	default:
		return &verifhook.TypeDesc{Kind: "result", Elem: c18RandType(rng, depth-1), Err: c18RandType(rng, depth-1)}
	}
}

func c18Show(t *verifhook.TypeDesc) string {
	switch t.Kind {
	case "prim":
		return t.Name
	case "ref":
		return "&" + c18Show(t.Elem)
	case "array":
		return fmt.Sprintf("[%d]%s", t.Len, c18Show(t.Elem))
	case "optional":
		return c18Show(t.Elem) + "?"
	case "result":
		return "(" + c18Show(t.Err) + " ! " + c18Show(t.Elem) + ")"
	}
	var fs []string
	for _, f := range t.Fields {
		fs = append(fs, "."+f.Name+": "+c18Show(&f.Type))
	}
	return "struct{" + strings.Join(fs, ", ") + "}"
}

func isPow2(x int) bool { return x > 0 && x&(x-1) == 0 }

// c18Invariants walks a type and reports the first broken invariant.
func c18Invariants(l *verifhook.Layout, t *verifhook.TypeDesc, ptr int) string {
	size, align := l.SizeOf(t), l.AlignOf(t)
	if size < 0 {
		return fmt.Sprintf("SizeOf(%s) = %d", c18Show(t), size)
	}
	if !isPow2(align) || align > 8 && align > ptr {
		return fmt.Sprintf("AlignOf(%s) = %d is not a power of two <= pointer size", c18Show(t), align)
	}
	if size%align != 0 {
		return fmt.Sprintf("SizeOf(%s) = %d is not a multiple of AlignOf = %d (array elements of this type would be misaligned)", c18Show(t), size, align)
	}
	switch t.Kind {
	case "prim":
		for _, p := range c18Prims {
			if p.name == t.Name && size != p.size {
				return fmt.Sprintf("SizeOf(%s) = %d, expected %d", t.Name, size, p.size)
			}
		}
		if t.Name == "str" && size != ptr {
			return fmt.Sprintf("SizeOf(str) = %d with pointer size %d", size, ptr)
		}
	case "ref":
		if size != ptr {
			return fmt.Sprintf("SizeOf(ref) = %d with pointer size %d", size, ptr)
		}
	case "array":
		es := l.SizeOf(t.Elem)
		if size != es*t.Len {
			return fmt.Sprintf("SizeOf(%s) = %d != %d * %d", c18Show(t), size, t.Len, es)
		}
		if align != l.AlignOf(t.Elem) {
			return fmt.Sprintf("AlignOf(%s) = %d != element alignment %d", c18Show(t), align, l.AlignOf(t.Elem))
		}
		return c18Invariants(l, t.Elem, ptr)
	case "optional":
		es := l.SizeOf(t.Elem)
		// the flag byte lives at offset SizeOf(inner) (runtime/core/optional.c, emitOptionalSome)
		if es+1 > size {
			return fmt.Sprintf("optional %s: flag offset %d lies outside SizeOf = %d", c18Show(t), es, size)
		}
		if align < l.AlignOf(t.Elem) {
			return fmt.Sprintf("optional %s: alignment %d smaller than payload alignment %d", c18Show(t), align, l.AlignOf(t.Elem))
		}
		return c18Invariants(l, t.Elem, ptr)
	case "result":
		os_, es := l.SizeOf(t.Elem), l.SizeOf(t.Err)
		m := os_
		if es > m {
			m = es
		}
		// the emitters place the discriminant after the payload union padded to the larger of
		// the two payload alignments (qbe resultTagOffset)
		ua := l.AlignOf(t.Elem)
		if ea := l.AlignOf(t.Err); ea > ua {
			ua = ea
		}
		if ua < 1 {
			ua = 1
		}
		tagOff := (m + ua - 1) / ua * ua
		if tagOff+1 > size {
			return fmt.Sprintf("result %s: discriminant at offset %d (after the %d-byte union padded to %d) lies outside SizeOf = %d", c18Show(t), tagOff, m, ua, size)
		}
		if align < l.AlignOf(t.Elem) || align < l.AlignOf(t.Err) {
			return fmt.Sprintf("result %s: alignment %d smaller than a payload alignment", c18Show(t), align)
		}
		if s := c18Invariants(l, t.Elem, ptr); s != "" {
			return s
		}
		return c18Invariants(l, t.Err, ptr)
	case "struct":
		ssize, salign, offs := l.StructLayout(t)
		if ssize != size || salign != align {
			return fmt.Sprintf("StructLayout and SizeOf/AlignOf disagree for %s: %d/%d vs %d/%d", c18Show(t), ssize, salign, size, align)
		}
		if len(offs) != len(t.Fields) {
			return fmt.Sprintf("StructLayout of %s lists %d of %d fields", c18Show(t), len(offs), len(t.Fields))
		}
		end := 0
		for i, f := range t.Fields {
			fs, fa := l.SizeOf(&f.Type), l.AlignOf(&f.Type)
			o := offs[i].Offset
			if o < end {
				return fmt.Sprintf("field %s of %s at offset %d overlaps the previous field ending at %d", f.Name, c18Show(t), o, end)
			}
			if o%fa != 0 {
				return fmt.Sprintf("field %s of %s at offset %d is not %d-aligned", f.Name, c18Show(t), o, fa)
			}
			if o+fs > size {
				return fmt.Sprintf("field %s of %s [%d,%d) lies outside SizeOf = %d", f.Name, c18Show(t), o, o+fs, size)
			}
			if fa > align {
				return fmt.Sprintf("field %s of %s needs alignment %d > struct alignment %d", f.Name, c18Show(t), fa, align)
			}
			end = o + fs
			if s := c18Invariants(l, &f.Type, ptr); s != "" {
				return s
			}
		}
	}
	return ""
}

// ---- (b) dynamic part -----------------------------------------------------------------------

type c18T struct {
	kind   string // int | struct | arr
	name   string // int type name / struct name
	bits   int
	signed bool
	isBool bool
	fields []c18F
	n      int
	elem   *c18T
}
type c18F struct {
	name string
	t    *c18T
}

type c18Gen struct {
	rng     *rand.Rand
	structs []*c18T
	wasm    bool
}

func (g *c18Gen) intT() *c18T {
	ts := []c18T{{kind: "int", name: "i8", bits: 8, signed: true}, {kind: "int", name: "u8", bits: 8}, {kind: "int", name: "i16", bits: 16, signed: true}, {kind: "int", name: "u16", bits: 16},
		{kind: "int", name: "i32", bits: 32, signed: true}, {kind: "int", name: "u32", bits: 32}, {kind: "int", name: "i64", bits: 64, signed: true}, {kind: "int", name: "u64", bits: 64},
		{kind: "int", name: "i128", bits: 128, signed: true}, {kind: "int", name: "u128", bits: 128}, {kind: "int", name: "i256", bits: 256, signed: true}, {kind: "int", name: "u256", bits: 256}}
	n := len(ts)
	if g.wasm {
		n = 8
	}
	if g.rng.IntN(6) == 0 {
		// a one-byte bool between wider neighbours: a store wider than the slot is visible
		return &c18T{kind: "int", name: "bool", bits: 8, isBool: true}
	}
	t := ts[g.rng.IntN(n)]
	return &t
}

// smallStruct: 2-3 narrow fields (total size 2-7 bytes), so that a copy of the wrong width spills
// into the neighbouring element or field.
func (g *c18Gen) smallStruct() *c18T {
	narrow := []c18T{{kind: "int", name: "i8", bits: 8, signed: true}, {kind: "int", name: "u8", bits: 8}, {kind: "int", name: "i16", bits: 16, signed: true}, {kind: "int", name: "u16", bits: 16}, {kind: "int", name: "bool", bits: 8, isBool: true}}
	st := &c18T{kind: "struct", name: fmt.Sprintf("T%d", len(g.structs))}
	g.structs = append(g.structs, st)
	nf := 2 + g.rng.IntN(2)
	same := g.rng.IntN(2) == 0
	first := narrow[g.rng.IntN(len(narrow))]
	for i := 0; i < nf; i++ {
		t := first
		if !same {
			t = narrow[g.rng.IntN(len(narrow))]
		}
		st.fields = append(st.fields, c18F{fmt.Sprintf("F%d", i), &t})
	}
	return st
}

func (g *c18Gen) typ(depth int) *c18T {
	k := g.rng.IntN(6)
	if depth <= 0 {
		k = 0
	}
	if depth > 0 && g.rng.IntN(5) == 0 {
		// an array of small structs (elements of 2-7 bytes), or one small struct
		if g.rng.IntN(3) == 0 {
			return g.smallStruct()
		}
		return &c18T{kind: "arr", n: 2 + g.rng.IntN(3), elem: g.smallStruct()}
	}
	switch {
	case k < 2:
		return g.intT()
	case k < 5:
		st := &c18T{kind: "struct", name: fmt.Sprintf("T%d", len(g.structs))}
		g.structs = append(g.structs, st)
		nf := 2 + g.rng.IntN(4)
		for i := 0; i < nf; i++ {
			st.fields = append(st.fields, c18F{fmt.Sprintf("F%d", i), g.typ(depth - 1)})
		}
		// declaration order: inner structs first
		return st
	default:
		return &c18T{kind: "arr", n: 1 + g.rng.IntN(3), elem: g.typ(depth - 1)}
	}
}

func (t *c18T) String() string {
	switch t.kind {
	case "arr":
		return fmt.Sprintf("[%d]%s", t.n, t.elem)
	}
	return t.name
}

type c18Leaf struct {
	path string
	t    *c18T
}

func c18Leaves(prefix string, t *c18T, out *[]c18Leaf) {
	switch t.kind {
	case "int":
		*out = append(*out, c18Leaf{prefix, t})
	case "struct":
		for _, f := range t.fields {
			c18Leaves(prefix+"."+f.name, f.t, out)
		}
	case "arr":
		for i := 0; i < t.n; i++ {
			c18Leaves(fmt.Sprintf("%s[%d]", prefix, i), t.elem, out)
		}
	}
}

// c18Aggs collects the paths of proper sub-aggregates (struct-typed fields, aggregate elements, array fields).
func c18Aggs(prefix string, t *c18T, out *[]c18Leaf) {
	switch t.kind {
	case "struct":
		if prefix != "" {
			*out = append(*out, c18Leaf{prefix, t})
		}
		for _, f := range t.fields {
			c18Aggs(prefix+"."+f.name, f.t, out)
		}
	case "arr":
		if prefix != "" {
			*out = append(*out, c18Leaf{prefix, t})
		}
		for i := 0; i < t.n; i++ {
			c18Aggs(fmt.Sprintf("%s[%d]", prefix, i), t.elem, out)
		}
	}
}

// sentinel: a distinct value per leaf that fills the whole width of the leaf type.
func c18Sentinel(t *c18T, k int) *big.Int {
	if t.isBool {
		return big.NewInt(int64(k % 2))
	}
	v := new(big.Int)
	pat := byte(0x11 + (k*7)%0xdd)
	for i := 0; i < t.bits/8; i++ {
		v.Lsh(v, 8)
		v.Or(v, big.NewInt(int64(pat+byte(i))))
	}
	if t.signed && v.Bit(t.bits-1) == 1 {
		v.Sub(v, new(big.Int).Lsh(big.NewInt(1), uint(t.bits)))
	}
	return v
}

// c18Fmt renders a leaf value as a literal / as printed.
func c18Fmt(t *c18T, v *big.Int) string {
	if t.isBool {
		if v.Sign() != 0 {
			return "true"
		}
		return "false"
	}
	return v.String()
}

func c18Lit(t *c18T, vals map[string]*big.Int, prefix string) string {
	switch t.kind {
	case "int":
		return c18Fmt(t, vals[prefix])
	case "struct":
		var fs []string
		for _, f := range t.fields {
			fs = append(fs, fmt.Sprintf(".%s = %s", f.name, c18Lit(f.t, vals, prefix+"."+f.name)))
		}
		return "{ " + strings.Join(fs, ", ") + " }"
	default:
		var es []string
		for i := 0; i < t.n; i++ {
			es = append(es, c18Lit(t.elem, vals, fmt.Sprintf("%s[%d]", prefix, i)))
		}
		return "[" + strings.Join(es, ", ") + "]"
	}
}

// c18Program returns the source and the expected output lines.
func c18Program(rng *rand.Rand, wasm bool) (string, []string) {
	g := &c18Gen{rng: rng, wasm: wasm}
	root := g.typ(2 + rng.IntN(2))
	if root.kind == "int" {
		root = &c18T{kind: "struct", name: "T0", fields: []c18F{{"F0", root}, {"F1", g.intT()}}}
		g.structs = append(g.structs, root)
	}
	var sb strings.Builder
	var exp []string
	sb.WriteString("import \"std/io\";\n\n")
	// inner structs were appended after their parents started: declare in reverse creation order
	for i := len(g.structs) - 1; i >= 0; i-- {
		st := g.structs[i]
		var fs []string
		for _, f := range st.fields {
			fs = append(fs, fmt.Sprintf(".%s: %s", f.name, f.t))
		}
		fmt.Fprintf(&sb, "type %s struct { %s };\n", st.name, strings.Join(fs, ", "))
	}
	var leaves []c18Leaf
	c18Leaves("", root, &leaves)
	vals := map[string]*big.Int{}
	for k, lf := range leaves {
		vals[lf.path] = c18Sentinel(lf.t, k)
	}
	pn := 0
	dump := func(v string, cur map[string]*big.Int) {
		for _, lf := range leaves {
			pn++
			fmt.Fprintf(&sb, "    let p%d: %s = %s%s;\n    io::Println(p%d);\n", pn, lf.t, v, lf.path, pn)
			exp = append(exp, c18Fmt(lf.t, cur[lf.path]))
		}
	}
	canaries := func() {
		sb.WriteString("    io::Println(c0);\n    io::Println(c1);\n    io::Println(c2);\n")
		exp = append(exp, "1229782938247303441", "2459565876494606882", "3689348814741910323")
	}
	// by-value function returning one leaf after overwriting it in its copy
	fl := leaves[rng.IntN(len(leaves))]
	fmt.Fprintf(&sb, "\nfn poke(p: %s) -> %s {\n    p%s = %s;\n    return p%s;\n}\n", root, fl.t, fl.path, c18Fmt(fl.t, c18Sentinel(fl.t, 200)), fl.path)
	sb.WriteString("\nfn main() {\n    let c0: i64 = 1229782938247303441;\n")
	fmt.Fprintf(&sb, "    let v: %s = %s;\n", root, c18Lit(root, vals, ""))
	sb.WriteString("    let c1: i64 = 2459565876494606882;\n")
	dump("v", vals)
	canaries2 := func() {}
	_ = canaries2
	// overwrite some leaves one at a time
	cur := map[string]*big.Int{}
	for k, x := range vals {
		cur[k] = x
	}
	for s := 0; s < 1+rng.IntN(3); s++ {
		lf := leaves[rng.IntN(len(leaves))]
		nv := c18Sentinel(lf.t, 100+s*13)
		fmt.Fprintf(&sb, "    v%s = %s;\n", lf.path, c18Fmt(lf.t, nv))
		cur[lf.path] = nv
		dump("v", cur)
	}
	// copy, modify the copy, both must keep their own values
	sb.WriteString("    let w := v;\n    let c2: i64 = 3689348814741910323;\n")
	cp := map[string]*big.Int{}
	for k, x := range cur {
		cp[k] = x
	}
	lf := leaves[rng.IntN(len(leaves))]
	nv := c18Sentinel(lf.t, 150)
	fmt.Fprintf(&sb, "    w%s = %s;\n", lf.path, c18Fmt(lf.t, nv))
	cp[lf.path] = nv
	dump("w", cp)
	dump("v", cur)
	// whole sub-aggregates assigned at once: from the other variable, and between sibling elements
	var aggs []c18Leaf
	c18Aggs("", root, &aggs)
	under := func(path, prefix string) bool {
		return strings.HasPrefix(path, prefix) && (len(path) == len(prefix) || path[len(prefix)] == '.' || path[len(prefix)] == '[')
	}
	if len(aggs) > 0 {
		for s := 0; s < 1+rng.IntN(2); s++ {
			ag := aggs[rng.IntN(len(aggs))]
			fmt.Fprintf(&sb, "    v%s = w%s;\n", ag.path, ag.path)
			for _, lf := range leaves {
				if under(lf.path, ag.path) {
					cur[lf.path] = cp[lf.path]
				}
			}
			dump("v", cur)
		}
		var arrs []c18Leaf
		for _, ag := range aggs {
			if ag.t.kind == "arr" && ag.t.n >= 2 && ag.t.elem.kind != "int" {
				arrs = append(arrs, ag)
			}
		}
		if root.kind == "arr" && root.n >= 2 && root.elem.kind != "int" {
			arrs = append(arrs, c18Leaf{"", root})
		}
		if len(arrs) > 0 {
			ar := arrs[rng.IntN(len(arrs))]
			i := rng.IntN(ar.t.n)
			j := (i + 1 + rng.IntN(ar.t.n-1)) % ar.t.n
			dst, src := fmt.Sprintf("%s[%d]", ar.path, i), fmt.Sprintf("%s[%d]", ar.path, j)
			fmt.Fprintf(&sb, "    w%s = w%s;\n", dst, src)
			for _, lf := range leaves {
				if under(lf.path, dst) {
					cp[lf.path] = cp[src+lf.path[len(dst):]]
				}
			}
			dump("w", cp)
		}
		dump("v", cur)
	}
	// the whole value assigned at once (after its fields have been accessed one by one), then the two diverge again
	sb.WriteString("    v = w;\n")
	for k, x := range cp {
		cur[k] = x
	}
	dump("v", cur)
	lf2 := leaves[rng.IntN(len(leaves))]
	nv2 := c18Sentinel(lf2.t, 170)
	fmt.Fprintf(&sb, "    v%s = %s;\n", lf2.path, c18Fmt(lf2.t, nv2))
	cur[lf2.path] = nv2
	dump("v", cur)
	dump("w", cp)
	// by-value call
	fmt.Fprintf(&sb, "    let r: %s = poke(v);\n    io::Println(r);\n", fl.t)
	exp = append(exp, c18Fmt(fl.t, c18Sentinel(fl.t, 200)))
	dump("v", cur)
	if !wasm && root.kind == "struct" { // optionals (the wasm back end has none; `[N]T?` binds the ? to the element type): some / none with a default of the same type
		fmt.Fprintf(&sb, "    let o: %s? = v;\n    let n: %s? = none;\n    let u := o ?? w;\n    let x := n ?? w;\n", root, root)
		dump("u", cur)
		dump("x", cp)
	}
	canaries()
	sb.WriteString("}\n")
	return sb.String(), exp
}

func checkC18(c *Ctx) error {
	r := c.R
	r.Rule = "(a) random type expressions (depth <= 4) over all primitive widths 1-32 bytes, str, references, fixed arrays, structs, optionals and results, evaluated by the compiler's DataLayout for pointer sizes 4 and 8 and checked against the layout invariants; (b) generated programs over a random composite (structs of mixed widths incl. 128/256-bit natively, nested structs, fixed arrays of structs) that print every leaf after initialisation with distinct full-width sentinels, after each single-leaf overwrite, after a copy + overwrite of the copy (both values), after whole sub-aggregates are assigned from the other variable and between sibling array elements (incl. arrays of 2-7 byte structs), after the whole value is assigned from the other variable and one leaf is overwritten again (both values), after a by-value call, and after wrapping in an optional (some / none), plus three canary locals — native and wasm; non-trivial = a distinct type expression / program whose every observation matched"
	r.Assumptions = []string{"optional flag at offset SizeOf(inner) and result discriminant after the payload union (as runtime/core/optional.c and the emitters use them)", "the wasm back end has no optionals and no 128/256-bit integers: those parts run natively only"}
	nTypes := c.N(2000, 100000)
	for _, ptr := range []int{4, 8} {
		l := verifhook.NewLayout(ptr)
		for i := 0; i < nTypes; i++ {
			rng := core.CaseRng(c.Env.Seed, fmt.Sprintf("C18-type-%d", ptr), i)
			t := c18RandType(rng, 1+rng.IntN(4))
			r.Eval()
			desc := c18Show(t)
			why := func() (s string) {
				defer func() {
					if x := recover(); x != nil {
						s = fmt.Sprint("panic in DataLayout: ", x)
					}
				}()
				return c18Invariants(l, t, ptr)
			}()
			if why != "" {
				r.Fail(core.Failure{Case: fmt.Sprintf("layout:%d:%d:%d", c.Env.Seed, ptr, i), Signature: "layout-invariant-broken", Detail: fmt.Sprintf("pointer size %d\n%s\ntype: %s", ptr, why, desc), Replay: desc})
				continue
			}
			r.Nontrivial(fmt.Sprintf("%d %s", ptr, desc))
			if i < 2 && ptr == 8 {
				r.Sample(map[string]interface{}{"kind": "layout", "pointer_size": ptr, "type": desc, "size": l.SizeOf(t), "align": l.AlignOf(t)})
			}
		}
	}
	r.Count("type_expressions_checked", 2*nTypes)
	nProg := c.N(36, 1500)
	core.ParDo(nProg, 5, func(i int) {
		rng := core.CaseRng(c.Env.Seed, "C18-prog", i)
		wasm := i%3 == 2
		src, exp := c18Program(rng, wasm)
		tg := core.Native
		if wasm {
			tg = core.Wasm
		}
		id := fmt.Sprintf("prog:%d:%d@%s", c.Env.Seed, i, tg)
		pr, err := buildAndRun(c, "c18", i, src, tg, tg == core.Native && !c.Quick() && i%10 == 0)
		r.Eval()
		if err != nil {
			r.Inconclusive(err.Error())
			return
		}
		if !pr.Compile.Accepted() {
			sig := "composite-program-rejected: " + core.Short(pr.Compile.FirstError(), 70)
			if pr.Compile.Crash != "" {
				sig = "compiler-crash: " + pr.Compile.Crash
			}
			r.Fail(core.Failure{Case: id, Signature: sig, Detail: core.Short(core.StripANSI(pr.Compile.Proc.Stderr), 900) + "\n" + src, Replay: src})
			return
		}
		if pr.Run.Kind == core.RunTimeout || pr.Run.Kind == core.RunError {
			r.Inconclusive(id + " run " + string(pr.Run.Kind) + " " + pr.Run.PanicMsg)
			return
		}
		if pr.Run.Proc.Exit == 97 {
			r.Fail(core.Failure{Case: id, Signature: "valgrind: " + firstValgrindLine(pr.Run.Proc.Stderr), Detail: src, Replay: src})
			return
		}
		got := pr.Run.Lines
		for k := 0; k < len(exp) && k < len(got); k++ {
			if got[k] != exp[k] {
				r.Fail(core.Failure{Case: id, Signature: "component-changed", Detail: fmt.Sprintf("observation %d: expected %s, program printed %s\nexpected %v\nprinted  %v\n%s", k+1, exp[k], got[k], clip(exp, k), clip(got, k), src), Replay: src})
				return
			}
		}
		if len(got) != len(exp) || pr.Run.Kind != core.RunExit0 {
			r.Fail(core.Failure{Case: id, Signature: "program-stopped-early", Detail: fmt.Sprintf("expected %d observations, got %d (%s, exit=%d signal=%d) stderr=%s\n%s", len(exp), len(got), pr.Run.Kind, pr.Run.Proc.Exit, pr.Run.Proc.Signal, core.Short(pr.Run.Proc.Stderr, 300), src), Replay: src})
			return
		}
		r.Nontrivial(src)
		r.Count("programs_ok."+string(tg), 1)
		r.Count("leaf_observations", len(exp))
		if i < 2 {
			r.Sample(map[string]interface{}{"kind": "program", "target": tg, "program": core.Short(src, 2500)})
		}
	})
	return nil
}
