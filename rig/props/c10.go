package props

import (
	"fmt"
	"math/big"
	"math/rand/v2"
	"path/filepath"
	"strings"

	"verifrig/core"
)

// C10 — integer literals are range-checked exactly and keep their value.
// Verdict monitor (accept iff value in range, math/big oracle) over the real type checker,
// then a reference-value monitor over native executables (and wasm for <=64-bit types)
// that print every accepted literal.

func init() { register("C10", checkC10) }

var intTys = []numTy{
	{"i8", false, true, 8}, {"i16", false, true, 16}, {"i32", false, true, 32}, {"i64", false, true, 64}, {"i128", false, true, 128}, {"i256", false, true, 256},
	{"u8", false, false, 8}, {"u16", false, false, 16}, {"u32", false, false, 32}, {"u64", false, false, 64}, {"u128", false, false, 128}, {"u256", false, false, 256},
}

type litCase struct {
	ty     numTy
	val    *big.Int
	spell  string
	pos    string // let | arg | return
	inRng  bool
	pinned string
}

// spellLit renders v in the given base with optional separators; negative values get a leading '-'.
func spellLit(rng *rand.Rand, v *big.Int, base int, seps bool) string {
	mag := new(big.Int).Abs(v)
	digits := mag.Text(base)
	if base == 16 && rng != nil && rng.IntN(2) == 0 {
		digits = strings.ToUpper(digits)
	}
	if seps && len(digits) > 1 {
		var sb strings.Builder
		for i, ch := range digits {
			if i > 0 && (rng == nil && i%3 == 0 || rng != nil && rng.IntN(3) == 0) {
				sb.WriteByte('_')
			}
			sb.WriteRune(ch)
		}
		digits = sb.String()
	}
	pre := map[int]string{10: "", 16: "0x", 8: "0o", 2: "0b"}[base]
	s := pre + digits
	if v.Sign() < 0 {
		s = "-" + s
	}
	return s
}

// litParts returns the top-level declarations and the statements that leave the literal's value in
// variable x<k> (of the literal's type) for one position.
func litParts(lc litCase, k int) (decls, stmts string) {
	t := lc.ty.name
	x := fmt.Sprintf("x%d", k)
	switch lc.pos {
	case "arg":
		return fmt.Sprintf("fn id%d(v: %s) -> %s {\n    return v;\n}\n\n", k, t, t), fmt.Sprintf("    let %s := id%d(%s);\n", x, k, lc.spell)
	case "return":
		return fmt.Sprintf("fn lit%d() -> %s {\n    return %s;\n}\n\n", k, t, lc.spell), fmt.Sprintf("    let %s := lit%d();\n", x, k)
	case "assign":
		return "", fmt.Sprintf("    let %s: %s = 0;\n    %s = %s;\n", x, t, x, lc.spell)
	case "compound":
		return "", fmt.Sprintf("    let %s: %s = 0;\n    %s += %s;\n", x, t, x, lc.spell)
	case "binary":
		return "", fmt.Sprintf("    let z%d: %s = 0;\n    let %s := z%d + %s;\n", k, t, x, k, lc.spell)
	case "field":
		return fmt.Sprintf("type LB%d struct { .F: %s };\n\n", k, t), fmt.Sprintf("    let b%d: LB%d = { .F = %s };\n    let %s := b%d.F;\n", k, k, lc.spell, x, k)
	case "array-elem":
		return "", fmt.Sprintf("    let a%d: [2]%s = [0, %s];\n    let %s := a%d[1];\n", k, t, lc.spell, x, k)
	case "dyn-elem":
		return "", fmt.Sprintf("    let a%d: []%s = [%s];\n    let %s := a%d[0];\n", k, t, lc.spell, x, k)
	case "elem-assign":
		return "", fmt.Sprintf("    let a%d: []%s = [0];\n    a%d[0] = %s;\n    let %s := a%d[0];\n", k, t, k, lc.spell, x, k)
	case "const":
		return "", fmt.Sprintf("    const c%d: %s = %s;\n    let %s := c%d;\n", k, t, lc.spell, x, k)
	case "catch-fallback":
		return fmt.Sprintf("fn res%d() -> str ! %s {\n    return \"e\"!;\n}\n\n", k, t), fmt.Sprintf("    let %s := res%d() catch %s;\n", x, k, lc.spell)
	}
	return "", fmt.Sprintf("    let %s: %s = %s;\n", x, t, lc.spell)
}

// c10ExtraPositions go beyond the three the property names (initialiser, argument, return): the
// same exactness is demanded wherever a literal meets a declared integer type.
var c10ExtraPositions = []string{"assign", "compound", "binary", "field", "array-elem", "dyn-elem", "elem-assign", "const", "catch-fallback"}

func litProgram(lc litCase, print bool) string {
	var sb strings.Builder
	if print {
		sb.WriteString("import \"std/io\";\n\n")
	}
	d, st := litParts(lc, 0)
	sb.WriteString(d)
	sb.WriteString("fn main() {\n")
	sb.WriteString(st)
	if print {
		sb.WriteString("    io::Println(x0);\n")
	}
	sb.WriteString("}\n")
	return sb.String()
}

func genLitCases(c *Ctx) []litCase {
	var out []litCase
	quick := c.Quick()
	idx := 0
	for _, t := range intTys {
		lo, hi := intRange(t)
		one := big.NewInt(1)
		vals := []*big.Int{
			new(big.Int).Sub(lo, one), lo, new(big.Int).Add(lo, one),
			big.NewInt(-1), big.NewInt(0), big.NewInt(1),
			new(big.Int).Sub(hi, one), hi, new(big.Int).Add(hi, one),
		}
		// the machine-word edges inside the type's range: a literal of a wide type that happens to
		// fit (or just not fit) into 32 / 64 signed or unsigned bits
		for _, k := range []uint{31, 32, 63, 64} {
			if int(k) >= t.bits {
				continue
			}
			p2 := new(big.Int).Lsh(one, k)
			for _, dlt := range []int64{-1, 0} {
				v := new(big.Int).Add(p2, big.NewInt(dlt))
				vals = append(vals, v)
				if t.signed {
					vals = append(vals, new(big.Int).Neg(v))
				}
			}
		}
		rng := core.CaseRng(c.Env.Seed, "C10-"+t.name, 0)
		// 2^k +- 1 around limb / width edges
		ks := []int{7, 8, 15, 16, 31, 32, 63, 64, 65, 127, 128, 129, 255, 256, 257}
		nk := 4
		if !quick {
			nk = len(ks)
		}
		for j := 0; j < nk; j++ {
			k := ks[rng.IntN(len(ks))]
			if !quick {
				k = ks[j]
			}
			p := new(big.Int).Lsh(one, uint(k))
			v := new(big.Int).Add(p, big.NewInt(int64(rng.IntN(3)-1)))
			if rng.IntN(2) == 0 {
				v.Neg(v)
			}
			vals = append(vals, v)
		}
		nr := 3
		if !quick {
			nr = 12
		}
		for j := 0; j < nr; j++ { // random magnitudes up to 2^300
			bl := 1 + rng.IntN(300)
			v := new(big.Int)
			for v.BitLen() < bl {
				v.Lsh(v, 32)
				v.Or(v, big.NewInt(int64(rng.Uint32())))
			}
			v.Rsh(v, uint(v.BitLen()-bl))
			if rng.IntN(2) == 0 {
				v.Neg(v)
			}
			vals = append(vals, v)
		}
		if rng.IntN(2) == 0 || !quick {
			vals = append(vals, new(big.Int).Neg(new(big.Int).Add(hi, one))) // -(max+1): == min for signed
		}
		bases := []int{10, 16, 8, 2}
		poss := []string{"let", "arg", "return"}
		for _, v := range vals {
			for _, b := range bases {
				if quick && b != 10 && rng.IntN(2) == 0 {
					continue
				}
				pos := poss[idx%3]
				idx++
				seps := rng.IntN(3) == 0
				lc := litCase{ty: t, val: v, spell: spellLit(rng, v, b, seps), pos: pos}
				lc.inRng = v.Cmp(lo) >= 0 && v.Cmp(hi) <= 0
				out = append(out, lc)
				if !quick { // all positions in thorough
					for _, p2 := range poss {
						if p2 != pos {
							l2 := lc
							l2.pos = p2
							out = append(out, l2)
						}
					}
				}
				// one further position per literal (all of them in thorough)
				for q, p2 := range c10ExtraPositions {
					if quick && q != idx%len(c10ExtraPositions) {
						continue
					}
					l2 := lc
					l2.pos = p2
					out = append(out, l2)
				}
			}
		}
	}
	// pinned probes
	pin := func(name, ty, spell string, val string, in bool) {
		v, _ := new(big.Int).SetString(val, 10)
		for _, t := range intTys {
			if t.name == ty {
				out = append(out, litCase{ty: t, val: v, spell: spell, pos: "let", inRng: in, pinned: name})
			}
		}
	}
	pin("neg-hex-i128-min", "i128", "-0x80000000000000000000000000000000", "-170141183460469231731687303715884105728", true)
	pin("neg-hex-i64-min", "i64", "-0x8000000000000000", "-9223372036854775808", true)
	pin("neg-bin-i8-min", "i8", "-0b10000000", "-128", true)
	pin("neg-oct-i256-small", "i256", "-0o17", "-15", true)
	pin("u8-256", "u8", "256", "256", false)
	pin("i8-128", "i8", "128", "128", false)
	pin("u256-2^256", "u256", "115792089237316195423570985008687907853269984665640564039457584007913129639936", "115792089237316195423570985008687907853269984665640564039457584007913129639936", false)
	pin("u64-max-hex-seps", "u64", "0xFFFF_FFFF_FFFF_FFFF", "18446744073709551615", true)
	pin("minus-zero-u8", "u8", "-0", "0", true)
	return out
}

func (lc litCase) id(i int, seed int64) string {
	if lc.pinned != "" {
		return "probe:" + lc.pinned
	}
	return fmt.Sprintf("gen:%d:%s:%s:%s", seed, lc.ty.name, lc.pos, core.Short(lc.spell, 90))
}

func checkC10(c *Ctx) error {
	r := c.R
	r.Rule = "integer literals (decimal/0x/0o/0b, optional '_' separators, optional leading '-') at values min-1,min,min+1,-1,0,1,max-1,max,max+1, +-2^31, +-2^32, +-2^63, +-2^64 (and one less) where inside the type, 2^k+-1 and random magnitudes up to 2^300 for each of the 12 integer types, in positions typed let / argument / return and, beyond the three positions the property names, assignment, compound assignment, binary operand, struct field, fixed/dynamic array element, element assignment, const initialiser and catch fallback; each is one program type-checked by the real compiler (accept must equal math/big range test), and every accepted literal is printed by a native executable (and by the wasm module for <=64-bit types) and compared with the value; non-trivial = a distinct (type, spelling, position) whose verdict was decided"
	r.Assumptions = []string{"decimal spellings with a leading zero are not generated (base undefined by the language)", "'-' directly precedes the digits (the lexer's number token carries the sign)"}
	cases := genLitCases(c)
	tcs := make([]TC, len(cases))
	for i, lc := range cases {
		tcs[i] = TC{ID: lc.id(i, c.Env.Seed), Files: map[string]string{"main.fer": litProgram(lc, false)}}
	}
	results, dirs, err := c.TypecheckAll("c10", tcs)
	if err != nil {
		return err
	}
	var accepted []int
	for i, lc := range cases {
		res := results[i]
		id := tcs[i].ID
		src := tcs[i].Files["main.fer"]
		r.Eval()
		bad := ""
		switch {
		case res.Crash != "" || res.Proc.CPUOut:
			bad = "compiler-crash"
		case lc.inRng && !res.Accepted():
			bad = "in-range-literal-rejected"
		case !lc.inRng && res.Accepted():
			bad = "out-of-range-literal-accepted"
		case !lc.inRng && !res.CleanReject():
			bad = "unclean-reject"
		}
		if bad != "" {
			if !c.ConfirmBudget() {
				continue
			}
			cli, err := c.ConfirmCLI(dirs[i])
			if err != nil {
				return err
			}
			still := false
			switch bad {
			case "compiler-crash":
				still = cli.Crash != "" || cli.Proc.CPUOut
			case "in-range-literal-rejected":
				still = !cli.Accepted()
			case "out-of-range-literal-accepted":
				still = cli.Accepted()
			default:
				still = !cli.CleanReject() && !cli.Accepted()
			}
			if !still {
				r.Inconclusive("in-process and CLI verdicts differ for " + id)
				continue
			}
			r.Fail(core.Failure{Case: id, Signature: bad, Detail: fmt.Sprintf("type %s literal %s (value %s, in range: %v) position %s\nfirst error: %s %s\n%s", lc.ty.name, core.Short(lc.spell, 120), core.Short(lc.val.String(), 100), lc.inRng, lc.pos, cli.FirstError(), cli.Crash, src), Replay: src})
			continue
		}
		r.Nontrivial(id)
		if lc.inRng {
			r.Count("accepted_in_range", 1)
			accepted = append(accepted, i)
		} else {
			r.Count("rejected_out_of_range", 1)
		}
		if i%211 == 0 {
			r.Sample(map[string]interface{}{"type": lc.ty.name, "literal": core.Short(lc.spell, 100), "position": lc.pos, "in_range": lc.inRng, "accepted": res.Accepted()})
		}
	}
	// value check: batches of accepted literals printed by one native program
	bin, err := c.Env.Ferret()
	if err != nil {
		return err
	}
	libs, err := c.Env.Libs()
	if err != nil {
		return err
	}
	runner, err := c.Env.RuntimeMJS()
	if err != nil {
		return err
	}
	const batchSize = 40
	var batches [][]int
	for i := 0; i < len(accepted); i += batchSize {
		j := i + batchSize
		if j > len(accepted) {
			j = len(accepted)
		}
		batches = append(batches, accepted[i:j])
	}
	build := func(idxs []int) string {
		var sb, body strings.Builder
		sb.WriteString("import \"std/io\";\n\n")
		for k, ci := range idxs {
			d, st := litParts(cases[ci], k)
			sb.WriteString(d)
			body.WriteString(st)
			fmt.Fprintf(&body, "    io::Println(x%d);\n", k)
		}
		sb.WriteString("fn main() {\n")
		sb.WriteString(body.String())
		sb.WriteString("}\n")
		return sb.String()
	}
	var runBatch func(tag string, idxs []int, target core.Target, depth int)
	runBatch = func(tag string, idxs []int, target core.Target, depth int) {
		src := build(idxs)
		d := c.Env.CaseDir("c10run", tag)
		f := filepath.Join(d, "main.fer")
		core.WriteFile(f, src)
		res := core.Compile(core.CompileOpts{Binary: bin, Libs: libs, Target: target}, f)
		r.Eval()
		var run core.RunResult
		ok := res.Accepted()
		if ok {
			if target == core.Wasm {
				run = core.RunWasm(runner, res.Artifact, 10)
			} else {
				run = core.RunNative(res.Artifact, 10)
			}
			ok = run.Kind == core.RunExit0 && len(run.Lines) == len(idxs)
		}
		if !ok {
			if len(idxs) > 1 { // bisect to attribute the failure to single literals
				h := len(idxs) / 2
				runBatch(tag+"a", idxs[:h], target, depth+1)
				runBatch(tag+"b", idxs[h:], target, depth+1)
				return
			}
			lc := cases[idxs[0]]
			sig := "accepted-literal-not-compiled-" + string(target)
			det := res.FirstError() + " " + res.Crash
			if res.Accepted() {
				sig = "accepted-literal-run-" + string(run.Kind) + "-" + string(target)
				det = core.Short(run.Proc.Stderr, 300)
			}
			r.Fail(core.Failure{Case: tcs[idxs[0]].ID + "@" + string(target), Signature: sig, Detail: fmt.Sprintf("type %s literal %s position %s\n%s\n%s", lc.ty.name, core.Short(lc.spell, 120), lc.pos, det, src), Replay: src})
			return
		}
		for k, ci := range idxs {
			lc := cases[ci]
			r.Eval()
			if run.Lines[k] != lc.val.String() {
				r.Fail(core.Failure{Case: tcs[ci].ID + "@" + string(target), Signature: "literal-value-changed-" + string(target), Detail: fmt.Sprintf("type %s literal %s position %s: program printed %q, value is %s", lc.ty.name, core.Short(lc.spell, 120), lc.pos, run.Lines[k], lc.val.String()), Replay: src})
				continue
			}
			r.Nontrivial(tcs[ci].ID + "@run@" + string(target))
			r.Count("values_observed_"+string(target), 1)
		}
	}
	core.ParDo(len(batches), 4, func(bi int) {
		runBatch(fmt.Sprintf("n%d", bi), batches[bi], core.Native, 0)
	})
	// wasm: only types the wasm back end supports (<= 64 bits)
	var wasmIdx []int
	for _, ci := range accepted {
		if cases[ci].ty.bits <= 64 && cases[ci].pos != "catch-fallback" { // the wasm back end has no results
			wasmIdx = append(wasmIdx, ci)
		}
	}
	var wb [][]int
	for i := 0; i < len(wasmIdx); i += batchSize {
		j := i + batchSize
		if j > len(wasmIdx) {
			j = len(wasmIdx)
		}
		wb = append(wb, wasmIdx[i:j])
	}
	core.ParDo(len(wb), 4, func(bi int) {
		runBatch(fmt.Sprintf("w%d", bi), wb[bi], core.Wasm, 0)
	})
	return nil
}
