package props

import (
	"fmt"
	"math/big"
	"math/rand/v2"
	"os"
	"path/filepath"
	"strings"

	"verifrig/core"
)

// C16 — 128/256-bit integer arithmetic is exact modulo 2^N.
// Reference-model monitor (math/big) over the exported C API of runtime/core/bigint.c,
// linked unmodified into an ASan+UBSan driver; plus an end-to-end layer through the compiler.

func init() { register("C16", checkC16) }

type bigTy struct {
	name   string
	bits   int
	signed bool
}

var bigTys = []bigTy{{"i128", 128, true}, {"u128", 128, false}, {"i256", 256, true}, {"u256", 256, false}}

func (t bigTy) mod() *big.Int { return new(big.Int).Lsh(big.NewInt(1), uint(t.bits)) }

// norm reduces v modulo 2^N to the unsigned representative.
func (t bigTy) norm(v *big.Int) *big.Int {
	r := new(big.Int).Mod(v, t.mod())
	return r
}

// val interprets an unsigned representative in the type (two's complement for signed).
func (t bigTy) val(u *big.Int) *big.Int {
	if t.signed && u.Bit(t.bits-1) == 1 {
		return new(big.Int).Sub(u, t.mod())
	}
	return new(big.Int).Set(u)
}

func (t bigTy) hex(u *big.Int) string { return fmt.Sprintf("%0*x", t.bits/4, u) }

var limbChoices = []uint64{0, 1, 2, 1 << 63, 1<<63 - 1, ^uint64(0), ^uint64(0) - 1, 1 << 32, 1<<32 - 1, 10, 0x8000000000000001}

func genBig(rng *rand.Rand, t bigTy) *big.Int {
	nl := t.bits / 64
	r := new(big.Int)
	mode := rng.IntN(10)
	switch {
	case mode < 5: // limb-boundary combinations
		for i := nl - 1; i >= 0; i-- {
			var l uint64
			if rng.IntN(4) == 0 {
				l = rng.Uint64()
			} else {
				l = limbChoices[rng.IntN(len(limbChoices))]
			}
			r.Lsh(r, 64)
			r.Or(r, new(big.Int).SetUint64(l))
		}
	case mode == 5: // sign boundaries and neighbours
		b := []*big.Int{
			new(big.Int).Lsh(big.NewInt(1), uint(t.bits-1)),                                  // min (signed) / 2^(N-1)
			new(big.Int).Sub(new(big.Int).Lsh(big.NewInt(1), uint(t.bits-1)), big.NewInt(1)), // max signed
			new(big.Int).Sub(t.mod(), big.NewInt(1)),                                         // -1 / max unsigned
			new(big.Int).Sub(t.mod(), big.NewInt(2)),
			big.NewInt(0), big.NewInt(1),
			new(big.Int).Lsh(big.NewInt(1), 64), new(big.Int).Sub(new(big.Int).Lsh(big.NewInt(1), 64), big.NewInt(1)),
			new(big.Int).Lsh(big.NewInt(1), 128%uint(t.bits)),
		}
		r.Set(b[rng.IntN(len(b))])
		if rng.IntN(3) == 0 {
			r.Add(r, big.NewInt(int64(rng.IntN(5)-2)))
		}
	case mode == 6: // small magnitudes, possibly negative
		r.SetInt64(int64(rng.IntN(2001) - 1000))
	case mode == 7: // random bit length
		bl := 1 + rng.IntN(t.bits)
		for i := 0; i < nl; i++ {
			r.Lsh(r, 64)
			r.Or(r, new(big.Int).SetUint64(rng.Uint64()))
		}
		r.Rsh(r, uint(t.bits-bl))
		if rng.IntN(2) == 0 {
			r.Neg(r)
		}
	default: // uniform
		for i := 0; i < nl; i++ {
			r.Lsh(r, 64)
			r.Or(r, new(big.Int).SetUint64(rng.Uint64()))
		}
	}
	return t.norm(r)
}

type bigCmd struct {
	line   string // command sent to the driver
	expect string // expected value-form result
	hasPtr bool
}

var bigOps = []string{"add", "sub", "mul", "div", "mod", "eq", "lt", "gt", "and", "or", "xor", "not", "shl", "shr", "pow", "from64", "to64", "tostr", "fromstr", "strrt"}

func truncDivMod(a, b *big.Int) (q, m *big.Int) {
	q, m = new(big.Int).QuoRem(a, b, new(big.Int))
	return
}

func b2s(b bool) string {
	if b {
		return "1"
	}
	return "0"
}

// spell renders v in a base with optional separators, as from_string accepts it.
func spell(rng *rand.Rand, v *big.Int, signedOK bool) string {
	neg := v.Sign() < 0
	mag := new(big.Int).Abs(v)
	base := []int{10, 10, 16, 8, 2}[rng.IntN(5)]
	digits := mag.Text(base)
	if base == 16 && rng.IntN(2) == 0 {
		digits = strings.ToUpper(digits)
	}
	if rng.IntN(3) == 0 && len(digits) > 1 { // separators between digits
		var sb strings.Builder
		for i, c := range digits {
			if i > 0 && rng.IntN(4) == 0 {
				sb.WriteByte('_')
			}
			sb.WriteRune(c)
		}
		digits = sb.String()
	}
	pre := map[int]string{10: "", 16: "0x", 8: "0o", 2: "0b"}[base]
	if base != 10 && rng.IntN(4) == 0 {
		pre = strings.ToUpper(pre)
	}
	s := pre + digits
	if neg {
		s = "-" + s
	} else if rng.IntN(8) == 0 {
		s = "+" + s
	}
	return s
}

func genBigCmd(rng *rand.Rand, t bigTy, op string) bigCmd {
	a := genBig(rng, t)
	b := genBig(rng, t)
	av, bv := t.val(a), t.val(b)
	c := bigCmd{hasPtr: true}
	res := func(v *big.Int) string { return t.hex(t.norm(v)) }
	switch op {
	case "add":
		c.expect = res(new(big.Int).Add(av, bv))
	case "sub":
		c.expect = res(new(big.Int).Sub(av, bv))
	case "mul":
		c.expect = res(new(big.Int).Mul(av, bv))
	case "div", "mod":
		if rng.IntN(3) == 0 { // small divisors exercise long quotients
			b = t.norm(big.NewInt(int64(rng.IntN(2000) - 1000)))
			if !t.signed {
				b = t.norm(big.NewInt(int64(1 + rng.IntN(1000))))
			}
			bv = t.val(b)
		}
		if bv.Sign() == 0 {
			b = big.NewInt(3)
			bv = t.val(b)
		}
		q, m := truncDivMod(av, bv)
		if op == "div" {
			c.expect = res(q)
		} else {
			c.expect = res(m)
		}
	case "eq":
		if rng.IntN(3) == 0 {
			b = a
			bv = av
		}
		c.expect = b2s(av.Cmp(bv) == 0)
	case "lt":
		if rng.IntN(6) == 0 {
			b = a
			bv = av
		}
		c.expect = b2s(av.Cmp(bv) < 0)
	case "gt":
		if rng.IntN(6) == 0 {
			b = a
			bv = av
		}
		c.expect = b2s(av.Cmp(bv) > 0)
	case "and":
		c.expect = t.hex(new(big.Int).And(a, b))
	case "or":
		c.expect = t.hex(new(big.Int).Or(a, b))
	case "xor":
		c.expect = t.hex(new(big.Int).Xor(a, b))
	case "not":
		c.expect = t.hex(new(big.Int).Xor(a, new(big.Int).Sub(t.mod(), big.NewInt(1))))
		c.hasPtr = t.bits == 256
		c.line = fmt.Sprintf("%s not %s -", t.name, t.hex(a))
		return c
	case "shl", "shr":
		n := rng.IntN(t.bits + 2)
		if rng.IntN(3) == 0 {
			n = []int{0, 1, 63, 64, 65, 127, 128, 129, t.bits - 1, t.bits, t.bits + 1}[rng.IntN(11)]
		}
		if op == "shl" {
			c.expect = res(new(big.Int).Lsh(av, uint(n)))
		} else {
			c.expect = res(new(big.Int).Rsh(av, uint(n))) // big.Int Rsh is arithmetic (floor) for negatives
		}
		c.hasPtr = false
		c.line = fmt.Sprintf("%s %s %s %d", t.name, op, t.hex(a), n)
		return c
	case "pow":
		var e *big.Int
		switch rng.IntN(4) {
		case 0:
			e = big.NewInt(int64(rng.IntN(6)))
		case 1:
			e = big.NewInt(int64(rng.IntN(300)))
		case 2:
			e = new(big.Int).SetUint64(rng.Uint64())
		default:
			e = genBig(rng, t)
			if t.signed { // exponent >= 0 only
				e = new(big.Int).Abs(t.val(e))
				if e.BitLen() >= t.bits {
					e.Rsh(e, 1)
				}
			}
		}
		if rng.IntN(2) == 0 { // interesting bases
			a = t.norm([]*big.Int{big.NewInt(0), big.NewInt(1), big.NewInt(-1), big.NewInt(2), big.NewInt(-2), big.NewInt(3), big.NewInt(10), big.NewInt(-7)}[rng.IntN(8)])
		}
		b = t.norm(e)
		c.expect = t.hex(new(big.Int).Exp(a, e, t.mod()))
	case "from64":
		raw := rng.Uint64()
		if rng.IntN(2) == 0 {
			raw = limbChoices[rng.IntN(len(limbChoices))]
		}
		var v *big.Int
		if t.signed {
			v = big.NewInt(int64(raw))
		} else {
			v = new(big.Int).SetUint64(raw)
		}
		c.expect = res(v)
		c.line = fmt.Sprintf("%s from64 %016x -", t.name, raw)
		return c
	case "to64":
		c.expect = fmt.Sprintf("%016x", new(big.Int).And(a, new(big.Int).SetUint64(^uint64(0))))
		c.line = fmt.Sprintf("%s to64 %s -", t.name, t.hex(a))
		return c
	case "tostr":
		c.expect = av.String()
		c.line = fmt.Sprintf("%s tostr %s -", t.name, t.hex(a))
		return c
	case "fromstr":
		s := spell(rng, av, t.signed)
		c.expect = t.hex(a)
		c.line = fmt.Sprintf("%s fromstr %s -", t.name, s)
		return c
	case "strrt": // decimal text produced by the oracle, parsed by the runtime
		c.expect = t.hex(a)
		c.line = fmt.Sprintf("%s fromstr %s -", t.name, av.String())
		return c
	}
	c.line = fmt.Sprintf("%s %s %s %s", t.name, op, t.hex(a), t.hex(b))
	return c
}

// runBigBatch feeds cmds to the driver and compares every line. Returns failures.
func runBigBatch(c *Ctx, driver string, batch int, cmds []bigCmd, casePrefix string, opNames []string) {
	r := c.R
	dir := c.Env.CaseDir("c16")
	in := filepath.Join(dir, fmt.Sprintf("batch%d.in", batch))
	var sb strings.Builder
	for _, cm := range cmds {
		sb.WriteString(cm.line)
		sb.WriteByte('\n')
	}
	os.WriteFile(in, []byte(sb.String()), 0o644) // input is on disk before the child starts
	p := core.RunProc(core.RunOpts{Dir: dir, Stdin: sb.String(), CPUSecs: 600, MaxOut: 256 << 20,
		Env: []string{"ASAN_OPTIONS=abort_on_error=0:halt_on_error=1:detect_leaks=1:exitcode=99", "UBSAN_OPTIONS=halt_on_error=1:print_stacktrace=1:exitcode=98"}}, driver)
	lines := completeLines(p.Stdout)
	for i, cm := range cmds {
		id := fmt.Sprintf("%s:%d:%d", casePrefix, batch, i)
		if casePrefix == "probe" {
			id = "probe:" + opNames[i]
		}
		if i >= len(lines) {
			// the driver died on this command (sanitizer report / crash)
			rep := firstSanLine(p.Stderr)
			r.Fail(core.Failure{Case: id, Signature: "driver-died: " + rep, Detail: fmt.Sprintf("command: %s\nexit=%d signal=%d\nstderr:\n%s", cm.line, p.Exit, p.Signal, core.Short(p.Stderr, 3000)), Replay: cm.line})
			return
		}
		r.Eval()
		f := strings.Fields(lines[i])
		ok := len(f) == 2 && f[0] == cm.expect && (!cm.hasPtr && f[1] == "-" || cm.hasPtr && f[1] == cm.expect)
		if !ok {
			op := strings.Fields(cm.line)
			r.Fail(core.Failure{Case: id, Signature: "wrong-result " + op[0] + "." + op[1], Detail: fmt.Sprintf("command: %s\nexpected: %s\ngot (value-form ptr-form): %s", cm.line, cm.expect, lines[i]), Replay: cm.line})
			continue
		}
		r.Nontrivial(cm.line)
		of := strings.Fields(cm.line)
		r.Count("ok."+of[1], 1)
	}
	if p.Exit != 0 || p.Signal != 0 {
		r.Fail(core.Failure{Case: fmt.Sprintf("%s:%d:exit", casePrefix, batch), Signature: "driver-exit: " + firstSanLine(p.Stderr), Detail: fmt.Sprintf("exit=%d signal=%d\n%s", p.Exit, p.Signal, core.Short(p.Stderr, 3000))})
	}
	if strings.Contains(p.Stderr, "runtime error:") || strings.Contains(p.Stderr, "AddressSanitizer") || strings.Contains(p.Stderr, "LeakSanitizer") {
		r.Count("sanitizer_reports", 1)
	}
	os.Remove(in)
}

func firstSanLine(stderr string) string {
	for _, l := range strings.Split(stderr, "\n") {
		if strings.Contains(l, "runtime error:") || strings.Contains(l, "ERROR: AddressSanitizer") || strings.Contains(l, "ERROR: LeakSanitizer") {
			l = strings.TrimSpace(l)
			if i := strings.Index(l, "runtime error:"); i >= 0 {
				// keep file:line and the message
				return core.Short(l, 160)
			}
			if i := strings.Index(l, "ERROR:"); i >= 0 {
				f := strings.Fields(l[i:])
				if len(f) >= 3 {
					return strings.Join(f[:3], " ")
				}
			}
			return core.Short(l, 160)
		}
	}
	return "no sanitizer report"
}

func checkC16(c *Ctx) error {
	r := c.R
	r.Rule = "commands 'type op A B' for the exported ferret_{i,u}{128,256}_* API (value and _ptr forms) with limb-boundary-weighted operands, each compared with math/big reduced mod 2^N; non-trivial = a distinct command whose two results both matched the oracle. Driver = runtime/core/bigint.c unmodified + ASan/UBSan (-fno-sanitize-recover). End-to-end layer: generated Ferret programs (14-23 statement groups each) over i128/u128/i256/u256 with boundary-weighted operands, both literal-initialised and routed through identity functions: + - * / % **, six comparisons, unary minus, nested expressions, compound assignment, ++/--, casts small->large / large->small / large->large, by-value calls, struct fields with narrow neighbours, fixed-array elements, accumulation loops, branches; compiled natively by the real compiler and every printed line compared with math/big reduced mod 2^N."
	r.Assumptions = []string{"division/modulo by zero, negative shift counts and negative exponents are outside the property and not generated", "math/big is the oracle", "clang ASan+UBSan instrumentation of bigint.c; a clean run is not memory safety"}
	driver, err := c.Env.CDriver("bigint_driver", true, "core/bigint.c")
	if err != nil {
		return err
	}
	// pinned probes: limb-boundary vectors that pin earlier defects
	pin := []struct{ name, line, expect string }{
		{"sub-borrow-through-max-limb", "u128 sub 00000000000000010000000000000000 0000000000000000ffffffffffffffff", "00000000000000000000000000000001"},
		{"sub-borrow-chain-256", "u256 sub 0000000000000001000000000000000000000000000000000000000000000000 000000000000000000000000000000000000000000000000ffffffffffffffff", ""},
		{"i128-min-div-minus1", "i128 div 80000000000000000000000000000000 ffffffffffffffffffffffffffffffff", "80000000000000000000000000000000"},
		{"i128-sub-borrow", "i128 sub 00000000000000000000000000000000 0000000000000000ffffffffffffffff", ""},
		{"u256-mod-borrow", "u256 mod 0000000000000002000000000000000000000000000000000000000000000005 00000000000000000000000000000001ffffffffffffffffffffffffffffffff", ""},
	}
	var pcmds []bigCmd
	var pnames []string
	for _, p := range pin {
		f := strings.Fields(p.line)
		t := bigTys[0]
		for _, x := range bigTys {
			if x.name == f[0] {
				t = x
			}
		}
		a, _ := new(big.Int).SetString(f[2], 16)
		b, _ := new(big.Int).SetString(f[3], 16)
		exp := p.expect
		if exp == "" {
			switch f[1] {
			case "sub":
				exp = t.hex(t.norm(new(big.Int).Sub(t.val(a), t.val(b))))
			case "mod":
				_, m := truncDivMod(t.val(a), t.val(b))
				exp = t.hex(t.norm(m))
			}
		}
		pcmds = append(pcmds, bigCmd{line: p.line, expect: exp, hasPtr: true})
		pnames = append(pnames, p.name)
	}
	runBigBatch(c, driver, -1, pcmds, "probe", pnames)

	perCell := c.N(300, 40000)
	type cell struct {
		t  bigTy
		op string
	}
	var cells []cell
	for _, t := range bigTys {
		for _, op := range bigOps {
			cells = append(cells, cell{t, op})
		}
	}
	// batches: split every cell's vectors over nb batches so all cores are busy
	nb := 16
	if !c.Quick() {
		nb = 64
	}
	core.ParDo(nb, 0, func(bi int) {
		rng := core.CaseRng(c.Env.Seed, "C16-batch", bi)
		var cmds []bigCmd
		per := perCell / nb
		if per < 1 {
			per = 1
		}
		for _, ce := range cells {
			for k := 0; k < per; k++ {
				cmds = append(cmds, genBigCmd(rng, ce.t, ce.op))
			}
		}
		rng.Shuffle(len(cmds), func(i, j int) { cmds[i], cmds[j] = cmds[j], cmds[i] })
		if bi == 0 {
			for k := 0; k < 4 && k < len(cmds); k++ {
				r.Sample(map[string]string{"command": cmds[k].line, "expected": cmds[k].expect})
			}
		}
		runBigBatch(c, driver, bi, cmds, fmt.Sprintf("gen:%d", c.Env.Seed), nil)
	})
	return runC16EndToEnd(c)
}
