package props

import (
	"fmt"
	"math/rand/v2"

	"verifrig/core"
	"verifrig/gen"
)

// C08 — dynamic arrays and strings are bounds-checked at run time, not mis-rejected.
// Reference-model monitor over histories literal / append* / set / get / len / string index with
// compile-time-known (literal, let-bound) and opaque (function-returned) indices drawn from
// {-len-1, -len, -1, 0, len-1, len, len+1, large}. The oracle is the reference list/string model;
// a compile-time rejection is accepted only when the reference panics at a constant index.
// stdout of the produced program is a file (fully buffered): lines printed before the panic must
// still be there. Both targets.

func init() { register("C08", checkC08) }

type c08Prog struct {
	p            *gen.Program
	constOOB     bool // some out-of-range access uses a compile-time-known index
	appendsFirst bool
	wideIdx      bool // some index expression is not of type i32
	nested       bool // array of arrays / array in a struct field
	directed     string
}

func c08Generate(rng *rand.Rand, withStrings bool) c08Prog {
	I32 := gen.I32
	lit := func(t *gen.Type, v int64) *gen.Lit { return &gen.Lit{T: t, I: gen.Norm(t, v)} }
	et := []*gen.Type{gen.I8, gen.I16, gen.I32, gen.I64, gen.U8, gen.U16, gen.U32, gen.U64}[rng.IntN(8)]
	dt := &gen.Type{K: gen.KDyn, Elem: et}
	d := &gen.Var{Name: "d", T: dt}
	idf := &gen.Func{Name: "ix", Params: []gen.Param{{Name: "k", T: I32}}, Ret: I32, Body: []gen.Stmt{&gen.Return{X: &gen.Var{Name: "k", T: I32}}}}
	prog := &gen.Program{Features: map[string]bool{}, Funcs: []*gen.Func{idf}}
	out := c08Prog{}
	var main []gen.Stmt
	n := rng.IntN(6) // initial literal length (0 = empty literal)
	al := &gen.ArrLit{T: dt}
	for i := 0; i < n; i++ {
		al.Elems = append(al.Elems, lit(et, int64(rng.IntN(200))-50*int64(btoi(et.Signed))))
	}
	main = append(main, &gen.Let{Name: "d", T: dt, Init: al, Annot: true})
	length := n
	tn := 0
	oob := false
	idfs := map[string]*gen.Func{"i32": idf}
	idfOf := func(t *gen.Type) *gen.Func {
		if f, ok := idfs[t.String()]; ok {
			return f
		}
		f := &gen.Func{Name: "ix" + t.String(), Params: []gen.Param{{Name: "k", T: t}}, Ret: t, Body: []gen.Stmt{&gen.Return{X: &gen.Var{Name: "k", T: t}}}}
		idfs[t.String()] = f
		prog.Funcs = append(prog.Funcs, f)
		return f
	}
	// the index expression has one of the eight integer types that can represent k (i32 half of the time)
	mkIndex := func(k int64) (gen.Expr, bool) { // returns the expression and whether it is compile-time known
		it := I32
		if rng.IntN(2) == 0 {
			var fit []*gen.Type
			for _, t := range []*gen.Type{gen.I8, gen.I16, gen.I32, gen.I64, gen.U8, gen.U16, gen.U32, gen.U64} {
				if gen.Norm(t, k) == k && (t.Signed || k >= 0) {
					fit = append(fit, t)
				}
			}
			if len(fit) > 0 {
				it = fit[rng.IntN(len(fit))]
			}
		}
		if it != I32 {
			out.wideIdx = true
		}
		switch rng.IntN(3) {
		case 0:
			if it == I32 {
				return lit(I32, k), true
			}
			fallthrough
		case 1:
			tn++
			name := fmt.Sprintf("k%d", tn)
			main = append(main, &gen.Let{Name: name, T: it, Init: lit(it, k), Annot: true})
			return &gen.Var{Name: name, T: it}, true
		}
		return &gen.Call{Fn: idfOf(it), Args: []gen.Expr{lit(it, k)}}, false
	}
	pickIdx := func() int64 {
		l := int64(length)
		c := []int64{-l - 1, -l, -1, 0, l - 1, l, l + 1, 1 << 20, -(1 << 20),
			// values that only 64-bit (or u32) index types hold; several alias a valid index when truncated to 32 bits
			1 << 32, 1<<32 + l - 1, 1<<32 + 1, -(1 << 32), -(1 << 32) + l - 1, -(1 << 32) - 1, 1<<32 - 1, 1 << 31, 1<<31 + l, 1 << 62, -(1 << 62), 1 << 33}
		if length > 0 && rng.IntN(100) < 75 { // mostly valid for the current length
			k := int64(rng.IntN(length))
			if rng.IntN(3) == 0 {
				k -= l
			}
			return k
		}
		return c[rng.IntN(len(c))]
	}
	valid := func(k int64) bool {
		l := int64(length)
		return k >= -l && k < l
	}
	steps := 4 + rng.IntN(18)
	for s := 0; s < steps && !oob; s++ {
		switch op := rng.IntN(14); {
		case op >= 12: // one branch assigns the array a new literal (shorter or longer), the sibling
			// branch (or a later match arm) indexes it with a compile-time-known index that is valid for
			// the length the array really has there; afterwards the array is indexed again
			selv := int64(rng.IntN(2))
			tn++
			sn := fmt.Sprintf("s%d", tn)
			main = append(main, &gen.Let{Name: sn, T: I32, Init: &gen.Call{Fn: idf, Args: []gen.Expr{lit(I32, selv)}}, Annot: true})
			sv := &gen.Var{Name: sn, T: I32}
			newLen := 1 + rng.IntN(3)
			if rng.IntN(2) == 0 {
				newLen = length + 1 + rng.IntN(3)
			}
			nl := &gen.ArrLit{T: dt}
			for q := 0; q < newLen; q++ {
				nl.Elems = append(nl.Elems, lit(et, int64(rng.IntN(90))))
			}
			assign := []gen.Stmt{&gen.Assign{LHS: d, Op: "=", RHS: nl}}
			var read []gen.Stmt
			if length > 0 {
				k := int64(rng.IntN(length))
				if rng.IntN(2) == 0 {
					k = int64(length - 1) // the position most likely to lie beyond a shorter literal
				}
				if rng.IntN(3) == 0 {
					k -= int64(length)
				}
				tn++
				name := fmt.Sprintf("t%d", tn)
				read = []gen.Stmt{&gen.Let{Name: name, T: et, Init: &gen.Index{X: d, I: lit(I32, k), T: et}, Annot: true}, &gen.Print{X: &gen.Var{Name: name, T: et}}}
			} else {
				read = []gen.Stmt{&gen.Print{X: sv}}
			}
			cond := &gen.Bin{Op: "==", L: sv, R: lit(I32, 0), T: gen.TBool}
			assignTaken := false
			switch rng.IntN(3) {
			case 0:
				main = append(main, &gen.If{Cond: cond, Then: assign, Else: read})
				assignTaken = selv == 0
			case 1:
				main = append(main, &gen.If{Cond: cond, Then: read, Else: assign})
				assignTaken = selv != 0
			default:
				main = append(main, &gen.Match{Subj: sv, HasDef: true, Arms: []gen.MatchArm{{Pat: lit(I32, 0), Body: assign}}, Default: read})
				assignTaken = selv == 0
			}
			if assignTaken {
				length = newLen
			}
			tn++
			ln := fmt.Sprintf("n%d", tn)
			main = append(main, &gen.Let{Name: ln, T: I32, Init: &gen.Len{X: d}, Annot: true}, &gen.Print{X: &gen.Var{Name: ln, T: I32}})
		case op >= 10: // appends inside a loop; positions that exist only after some iterations are
			// read behind a length guard, earlier in the loop body than the append (or in the
			// loop condition), through compile-time-known and opaque indices
			reps := 2 + rng.IntN(4)
			k := int64(length + rng.IntN(reps))
			ie, _ := mkIndex(k)
			tn++
			qn, gn := fmt.Sprintf("q%d", tn), fmt.Sprintf("g%d", tn)
			qv := &gen.Var{Name: qn, T: I32}
			guard := &gen.If{Cond: &gen.Bin{Op: ">", L: &gen.Len{X: d}, R: lit(I32, k), T: gen.TBool}, Then: []gen.Stmt{
				&gen.Let{Name: gn, T: et, Init: &gen.Index{X: d, I: ie, T: et}, Annot: true}, &gen.Print{X: &gen.Var{Name: gn, T: et}}}}
			app := &gen.Append{Arr: d, Val: &gen.Cast{X: &gen.Bin{Op: "+", L: qv, R: lit(I32, int64(3+rng.IntN(40))), T: I32}, T: et}}
			switch rng.IntN(3) {
			case 0:
				main = append(main, &gen.Let{Name: qn, T: I32, Init: lit(I32, 0), Annot: true},
					&gen.While{Cond: &gen.Bin{Op: "<", L: qv, R: lit(I32, int64(reps)), T: gen.TBool}, Body: []gen.Stmt{guard, app,
						&gen.Assign{LHS: qv, Op: "=", RHS: &gen.Bin{Op: "+", L: qv, R: lit(I32, 1), T: I32}}}})
			case 1:
				main = append(main, &gen.Let{Name: qn, T: I32, Init: lit(I32, 0), Annot: true},
					&gen.While{Cond: &gen.Bin{Op: "<", L: &gen.Len{X: d}, R: lit(I32, int64(length+reps)), T: gen.TBool}, Body: []gen.Stmt{guard, app,
						&gen.Assign{LHS: qv, Op: "=", RHS: &gen.Bin{Op: "+", L: qv, R: lit(I32, 1), T: I32}}}})
			default:
				lo, hi := fmt.Sprintf("lo%d", tn), fmt.Sprintf("hi%d", tn)
				main = append(main, &gen.Let{Name: lo, T: I32, Init: lit(I32, 0), Annot: true}, &gen.Let{Name: hi, T: I32, Init: lit(I32, int64(reps)), Annot: true},
					&gen.ForRange{Var: qn, T: I32, Lo: &gen.Var{Name: lo, T: I32}, Hi: &gen.Var{Name: hi, T: I32}, Body: []gen.Stmt{guard, app}})
			}
			length += reps
			tn++
			ln := fmt.Sprintf("n%d", tn)
			main = append(main, &gen.Let{Name: ln, T: I32, Init: &gen.Len{X: d}, Annot: true}, &gen.Print{X: &gen.Var{Name: ln, T: I32}})
		case op < 4: // append (crossing the growth thresholds 4, 8, 16)
			reps := 1
			if rng.IntN(4) == 0 {
				reps = 3 + rng.IntN(6)
			}
			for q := 0; q < reps; q++ {
				main = append(main, &gen.Append{Arr: d, Val: lit(et, int64(rng.IntN(250))-60*int64(btoi(et.Signed)))})
				length++
			}
			tn++
			ln := fmt.Sprintf("n%d", tn)
			main = append(main, &gen.Let{Name: ln, T: I32, Init: &gen.Len{X: d}, Annot: true}, &gen.Print{X: &gen.Var{Name: ln, T: I32}})
		case op < 8: // get
			k := pickIdx()
			ie, known := mkIndex(k)
			tn++
			name := fmt.Sprintf("t%d", tn)
			main = append(main, &gen.Let{Name: name, T: et, Init: &gen.Index{X: d, I: ie, T: et}, Annot: true}, &gen.Print{X: &gen.Var{Name: name, T: et}})
			if !valid(k) {
				oob = true
				out.constOOB = known
			}
		default: // set then read back through a literal index
			k := pickIdx()
			ie, known := mkIndex(k)
			main = append(main, &gen.Assign{LHS: &gen.Index{X: d, I: ie, T: et}, Op: "=", RHS: lit(et, int64(rng.IntN(100)))})
			if !valid(k) {
				oob = true
				out.constOOB = known
			} else {
				tn++
				name := fmt.Sprintf("t%d", tn)
				main = append(main, &gen.Let{Name: name, T: et, Init: &gen.Index{X: d, I: lit(I32, k), T: et}, Annot: true}, &gen.Print{X: &gen.Var{Name: name, T: et}})
			}
		}
	}
	if withStrings && !oob {
		strs := []string{"ferret", "ab", "x", "hello world"}
		sv := strs[rng.IntN(len(strs))]
		main = append(main, &gen.Let{Name: "w", T: gen.TStr, Init: &gen.Lit{T: gen.TStr, S: sv}})
		w := &gen.Var{Name: "w", T: gen.TStr}
		for q := 0; q < 1+rng.IntN(3) && !oob; q++ {
			l := int64(len(sv))
			k := []int64{0, l - 1, -1, -l, l, -l - 1, int64(rng.IntN(len(sv))), 1 << 32, 1<<32 + 1, -(1 << 32), 1<<32 - 1}[rng.IntN(11)]
			ie, known := mkIndex(k)
			tn++
			name := fmt.Sprintf("ch%d", tn)
			ct := gen.TStr // printed as the character
			main = append(main, &gen.Let{Name: name, T: ct, Init: &gen.Index{X: w, I: ie, T: gen.TStr}}, &gen.Print{X: &gen.Var{Name: name, T: ct}})
			if k < -l || k >= l {
				oob = true
				out.constOOB = known
			}
		}
	}
	if !oob { // final dump through iteration
		main = append(main, &gen.ForDyn{Val: "v", Arr: d, Body: []gen.Stmt{&gen.Print{X: &gen.Var{Name: "v", T: et}}}})
	}
	main = append(main, &gen.Print{X: &gen.Lit{T: gen.TStr, S: "end"}})
	prog.Main = main
	out.p = prog
	return out
}

// c08GenerateNested: a literal-initialised array of arrays whose rows differ in length (some longer
// than the number of rows, so an inner index can exceed the outer length) and a struct holding a
// dynamic array; reads, writes and len through literal, let-bound and opaque indices on both levels.
func c08GenerateNested(rng *rand.Rand) c08Prog {
	I32 := gen.I32
	lit := func(t *gen.Type, v int64) *gen.Lit { return &gen.Lit{T: t, I: gen.Norm(t, v)} }
	et := []*gen.Type{gen.I32, gen.I64, gen.I16, gen.U8}[rng.IntN(4)]
	rowT := &gen.Type{K: gen.KDyn, Elem: et}
	gT := &gen.Type{K: gen.KDyn, Elem: rowT}
	g := &gen.Var{Name: "g", T: gT}
	idf := &gen.Func{Name: "ix", Params: []gen.Param{{Name: "k", T: I32}}, Ret: I32, Body: []gen.Stmt{&gen.Return{X: &gen.Var{Name: "k", T: I32}}}}
	boxT := &gen.Type{K: gen.KStruct, Name: "Box", Fields: []gen.Field{{Name: "F", T: rowT}, {Name: "N", T: I32}}}
	prog := &gen.Program{Features: map[string]bool{}, Funcs: []*gen.Func{idf}, Types: []*gen.Type{boxT}}
	out := c08Prog{}
	var main []gen.Stmt
	nrows := 1 + rng.IntN(3)
	lens := make([]int, nrows)
	gl := &gen.ArrLit{T: gT}
	for i := range lens {
		lens[i] = 1 + rng.IntN(6)
		if rng.IntN(2) == 0 {
			lens[i] = nrows + 1 + rng.IntN(4) // longer than the number of rows
		}
		rl := &gen.ArrLit{T: rowT}
		for k := 0; k < lens[i]; k++ {
			rl.Elems = append(rl.Elems, lit(et, int64(10*(i+1)+k)))
		}
		gl.Elems = append(gl.Elems, rl)
	}
	main = append(main, &gen.Let{Name: "g", T: gT, Init: gl, Annot: true})
	blen := 2 + rng.IntN(5)
	bl := &gen.ArrLit{T: rowT}
	for k := 0; k < blen; k++ {
		bl.Elems = append(bl.Elems, lit(et, int64(100+k)))
	}
	main = append(main, &gen.Let{Name: "bx", T: boxT, Init: &gen.StructLit{T: boxT, Vals: []gen.Expr{bl, lit(I32, 1)}}, Annot: true})
	bxF := &gen.FieldX{X: &gen.Var{Name: "bx", T: boxT}, Name: "F", T: rowT}
	tn := 0
	mkIndex := func(k int64) (gen.Expr, bool) {
		switch rng.IntN(3) {
		case 0:
			return lit(I32, k), true
		case 1:
			tn++
			name := fmt.Sprintf("k%d", tn)
			main = append(main, &gen.Let{Name: name, T: I32, Init: lit(I32, k)})
			return &gen.Var{Name: name, T: I32}, true
		}
		return &gen.Call{Fn: idf, Args: []gen.Expr{lit(I32, k)}}, false
	}
	pick := func(l int) int64 {
		L := int64(l)
		if rng.IntN(100) < 80 {
			k := int64(rng.IntN(l))
			if rng.IntN(3) == 0 {
				k -= L
			}
			return k
		}
		return []int64{L, L + 1, -L - 1, 1 << 20}[rng.IntN(4)]
	}
	oob := false
	steps := 4 + rng.IntN(10)
	for s := 0; s < steps && !oob; s++ {
		tn++
		name := fmt.Sprintf("t%d", tn)
		switch rng.IntN(6) {
		case 0, 1, 2: // g[i][k]
			i := pick(nrows)
			ie, k1 := mkIndex(i)
			if i < -int64(nrows) || i >= int64(nrows) {
				main = append(main, &gen.Let{Name: name, T: et, Init: &gen.Index{X: &gen.Index{X: g, I: ie, T: rowT}, I: lit(I32, 0), T: et}, Annot: true}, &gen.Print{X: &gen.Var{Name: name, T: et}})
				oob, out.constOOB = true, k1
				continue
			}
			ri := int(i)
			if ri < 0 {
				ri += nrows
			}
			k := pick(lens[ri])
			ke, k2 := mkIndex(k)
			elem := &gen.Index{X: &gen.Index{X: g, I: ie, T: rowT}, I: ke, T: et}
			if rng.IntN(3) == 0 {
				main = append(main, &gen.Assign{LHS: elem, Op: "=", RHS: lit(et, int64(rng.IntN(100)))})
				if k >= -int64(lens[ri]) && k < int64(lens[ri]) {
					main = append(main, &gen.Let{Name: name, T: et, Init: &gen.Index{X: &gen.Index{X: g, I: lit(I32, int64(ri)), T: rowT}, I: lit(I32, k), T: et}, Annot: true}, &gen.Print{X: &gen.Var{Name: name, T: et}})
				}
			} else {
				main = append(main, &gen.Let{Name: name, T: et, Init: elem, Annot: true}, &gen.Print{X: &gen.Var{Name: name, T: et}})
			}
			if k < -int64(lens[ri]) || k >= int64(lens[ri]) {
				oob, out.constOOB = true, k1 && k2
			}
		case 3: // len of a row
			i := int64(rng.IntN(nrows))
			ie, _ := mkIndex(i)
			main = append(main, &gen.Let{Name: name, T: I32, Init: &gen.Len{X: &gen.Index{X: g, I: ie, T: rowT}}, Annot: true}, &gen.Print{X: &gen.Var{Name: name, T: I32}})
		default: // bx.F[k]
			k := pick(blen)
			ke, k2 := mkIndex(k)
			elem := &gen.Index{X: bxF, I: ke, T: et}
			if rng.IntN(3) == 0 {
				main = append(main, &gen.Assign{LHS: elem, Op: "=", RHS: lit(et, int64(rng.IntN(100)))})
			} else {
				main = append(main, &gen.Let{Name: name, T: et, Init: elem, Annot: true}, &gen.Print{X: &gen.Var{Name: name, T: et}})
			}
			if k < -int64(blen) || k >= int64(blen) {
				oob, out.constOOB = true, k2
			}
		}
	}
	if !oob {
		for i := 0; i < nrows; i++ {
			main = append(main, &gen.ForDyn{Val: fmt.Sprintf("v%d", i), Arr: &gen.Index{X: g, I: lit(I32, int64(i)), T: rowT}, Body: []gen.Stmt{&gen.Print{X: &gen.Var{Name: fmt.Sprintf("v%d", i), T: et}}}})
		}
	}
	main = append(main, &gen.Print{X: &gen.Lit{T: gen.TStr, S: "end"}})
	prog.Main = main
	out.p = prog
	out.nested = true
	return out
}

// c08Directed: one program per (index type, extreme value of that type, operation): an opaque index
// of type T holding the type's own boundary values (and, for the wide types, values around 2^31 and
// 2^32 that alias a valid position when truncated to 32 bits) reads a dynamic array, writes it, or
// indexes a string of length 4. Every one of these is out of range and must panic after "before".
func c08Directed() []c08Prog {
	lit := func(t *gen.Type, v int64) *gen.Lit { return &gen.Lit{T: t, I: gen.Norm(t, v)} }
	const L = 4
	type tv struct {
		t    *gen.Type
		vals []int64
	}
	tvs := []tv{
		{gen.I8, []int64{-128, 127, -5, 4}}, {gen.U8, []int64{255, 4, 128}}, {gen.I16, []int64{-32768, 32767}}, {gen.U16, []int64{65535, 32768}},
		{gen.I32, []int64{-2147483648, 2147483647, -5}}, {gen.U32, []int64{2147483648, 4294967295, 4294967296 - L, 4294967295 - 1, 2147483648 + 1}},
		{gen.I64, []int64{4294967296, 4294967296 + 1, -4294967296, -4294967296 + 1, 2147483648, -2147483649, 1 << 62, -(1 << 62), 8589934592 + 2}},
		{gen.U64, []int64{4294967296, 4294967296 + 3, 2147483648, 1 << 62, 4294967295}},
	}
	var out []c08Prog
	for _, x := range tvs {
		for _, v := range x.vals {
			for _, op := range []string{"read", "write", "string"} {
				et := gen.I32
				dt := &gen.Type{K: gen.KDyn, Elem: et}
				d := &gen.Var{Name: "d", T: dt}
				idf := &gen.Func{Name: "ix", Params: []gen.Param{{Name: "k", T: x.t}}, Ret: x.t, Body: []gen.Stmt{&gen.Return{X: &gen.Var{Name: "k", T: x.t}}}}
				prog := &gen.Program{Features: map[string]bool{}, Funcs: []*gen.Func{idf}}
				al := &gen.ArrLit{T: dt}
				for k := 0; k < L-1; k++ {
					al.Elems = append(al.Elems, lit(et, int64(10*(k+1))))
				}
				main := []gen.Stmt{&gen.Let{Name: "d", T: dt, Init: al, Annot: true}, &gen.Append{Arr: d, Val: lit(et, 40)},
					&gen.Let{Name: "w", T: gen.TStr, Init: &gen.Lit{T: gen.TStr, S: "abcd"}}, &gen.Print{X: &gen.Lit{T: gen.TStr, S: "before"}}}
				ie := &gen.Call{Fn: idf, Args: []gen.Expr{lit(x.t, v)}}
				switch op {
				case "read":
					main = append(main, &gen.Let{Name: "t", T: et, Init: &gen.Index{X: d, I: ie, T: et}, Annot: true}, &gen.Print{X: &gen.Var{Name: "t", T: et}})
				case "write":
					main = append(main, &gen.Assign{LHS: &gen.Index{X: d, I: ie, T: et}, Op: "=", RHS: lit(et, 99)})
				default:
					main = append(main, &gen.Let{Name: "ch", T: gen.TStr, Init: &gen.Index{X: &gen.Var{Name: "w", T: gen.TStr}, I: ie, T: gen.TStr}}, &gen.Print{X: &gen.Var{Name: "ch", T: gen.TStr}})
				}
				main = append(main, &gen.ForDyn{Val: "v", Arr: d, Body: []gen.Stmt{&gen.Print{X: &gen.Var{Name: "v", T: et}}}}, &gen.Print{X: &gen.Lit{T: gen.TStr, S: "end"}})
				prog.Main = main
				out = append(out, c08Prog{p: prog, wideIdx: true, directed: fmt.Sprintf("directed:%s:%d:%s", x.t, v, op)})
			}
		}
	}
	return out
}

func btoi(b bool) int {
	if b {
		return 1
	}
	return 0
}

func checkC08(c *Ctx) error {
	r := c.R
	r.Rule = "directed: every boundary value of every index type i8..u64 (and values around 2^31 / 2^32 that alias a valid position after truncation) as an opaque index reading / writing a dynamic array and indexing a string (native); every fourth generated program: an array of arrays with rows of different lengths (some longer than the number of rows) and a struct holding a dynamic array, read / written / measured through literal, let-bound and opaque indices on both levels; the others: histories over one dynamic array (literal of 0-5 elements, appends crossing the growth thresholds, element widths 1-8 bytes, get/set/len, whole-array reassignment in one branch with a constant-index read in the sibling branch or a later match arm, final iteration) and one string, with indices that are literals, let-bound constants or returned by an opaque function, of every integer type i8..u64 that can hold the value, drawn from {-len-1,-len,-1,0,len-1,len,len+1,+-2^20, +-2^32 (+ a valid index), 2^32-1, 2^31, +-2^62} or valid for the current length; compiled for native and wasm and compared with the reference list/string model including the panic point and the lines printed before it (stdout is a file). A compile-time rejection is accepted only if the reference panics at a compile-time-known index. non-trivial = a distinct history whose verdict was decided on at least one target"
	r.Assumptions = []string{"the panic message must contain 'index out of bounds'", "string indexing prints the byte as a character"}
	n := c.N(64, 1600)
	runProbes(c, "C08", core.Native)
	directed := c08Directed()
	core.ParDo(n+len(directed), 5, func(i int) {
		rng := r.Rng(i)
		var cp c08Prog
		if i >= n {
			cp = directed[i-n]
		} else if i%4 == 3 {
			cp = c08GenerateNested(rng)
		} else {
			cp = c08Generate(rng, i%3 == 0)
		}
		src := cp.p.Source()
		id := fmt.Sprintf("gen:%d:%d", c.Env.Seed, i)
		if cp.directed != "" {
			id = cp.directed
		}
		exp := gen.Run(cp.p)
		if exp.Internal != "" || exp.Timeout || exp.FellOff != "" {
			r.Fail(core.Failure{Case: id, Signature: "HARNESS generator/interpreter bug", Detail: fmt.Sprintf("%+v\n%s", exp, src), Replay: src})
			return
		}
		targets := []core.Target{core.Native}
		if i%2 == 0 && i%3 != 0 && cp.directed == "" { // strings are not supported by the wasm back end
			targets = append(targets, core.Wasm)
		}
		for _, tg := range targets {
			pr, err := buildAndRun(c, "c08"+string(tg), i, src, tg, tg == core.Native && !c.Quick() && i%10 == 0)
			r.Eval()
			if err != nil {
				r.Inconclusive(err.Error())
				return
			}
			cid := id + "@" + string(tg)
			if pr.Compile.Crash != "" {
				r.Fail(core.Failure{Case: cid, Signature: "compiler-crash: " + pr.Compile.Crash, Detail: src, Replay: src})
				continue
			}
			if !pr.Compile.Accepted() {
				only9 := pr.Compile.CleanReject()
				for _, dg := range core.Errors(pr.Compile.Diags) {
					if dg.Code != "T0009" {
						only9 = false
					}
				}
				if exp.Panic != "" && cp.constOOB && only9 {
					r.Nontrivial(src + string(tg))
					r.Count("rejected_definite_oob."+string(tg), 1)
					continue
				}
				if tg == core.Wasm && !only9 {
					r.Count("not_supported_by_wasm", 1)
					continue
				}
				r.Fail(core.Failure{Case: cid, Signature: "valid-history-rejected: " + core.Short(pr.Compile.FirstError(), 60), Detail: fmt.Sprintf("reference: lines=%v panic=%q\n%s\n%s", exp.Lines, exp.Panic, core.Short(core.StripANSI(pr.Compile.Proc.Stderr), 600), src), Replay: src})
				continue
			}
			if pr.Run.Kind == core.RunTimeout || pr.Run.Kind == core.RunError {
				r.Inconclusive(cid + " run " + string(pr.Run.Kind) + " " + pr.Run.PanicMsg)
				continue
			}
			if pr.Run.Proc.Exit == 97 {
				r.Fail(core.Failure{Case: cid, Signature: "valgrind: " + firstValgrindLine(pr.Run.Proc.Stderr), Detail: src, Replay: src})
				continue
			}
			run := pr.Run
			if tg == core.Wasm && run.Kind == core.RunTrap {
				run.Kind = core.RunPanic // a trap is the wasm form of an abnormal stop
				if run.PanicMsg == "" {
					run.PanicMsg = "index out of bounds"
				}
			}
			if sig, det := compareWithReference(exp, run); sig != "" {
				r.Fail(core.Failure{Case: cid, Signature: sig, Detail: fmt.Sprintf("%s\n%s", det, src), Replay: src})
				continue
			}
			if exp.Panic != "" && run.Proc.Exit == 0 && tg == core.Native {
				r.Fail(core.Failure{Case: cid, Signature: "panic-with-zero-exit-status", Detail: src, Replay: src})
				continue
			}
			r.Nontrivial(src + string(tg))
			if exp.Panic != "" {
				r.Count("panicked_like_reference."+string(tg), 1)
			} else {
				r.Count("completed_like_reference."+string(tg), 1)
			}
		}
		if i < 2 {
			r.Sample(map[string]interface{}{"program": src, "reference_lines": exp.Lines, "reference_panic": exp.Panic})
		}
	})
	return nil
}
