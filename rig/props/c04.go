package props

import (
	"fmt"
	"math/rand/v2"
	"strings"

	"verifrig/core"
	"verifrig/gen"
)

// C04 — fixed-size array accesses are in bounds and hit the indexed element.
// Reference-model monitor with *dynamic* index semantics: programs index [N]T with literal,
// const, let-bound, reassigned, branch-dependent, loop-carried, borrowed and closure-modified
// index variables. Allowed observations: rejected at compile time (only where the language rule
// permits: a non-constant index T0028 or an out-of-range one T0009), or output == reference, or a
// panic exactly where the reference panics. Canary locals around the arrays are printed last.

func init() { register("C04", checkC04) }

type c04Prog struct {
	p          *gen.Program
	mustAccept bool   // every index is a literal/const in range: rejection is a violation
	scenario   string // for the evidence
}

func c04Generate(rng *rand.Rand) c04Prog {
	I32, I64 := gen.I32, gen.I64
	lit := func(t *gen.Type, v int64) *gen.Lit { return &gen.Lit{T: t, I: gen.Norm(t, v)} }
	n := 2 + rng.IntN(5)
	elemT := []*gen.Type{gen.I8, gen.I16, gen.I32, gen.I64, gen.U8, gen.U16, gen.U32, gen.U64}[rng.IntN(8)]
	arrT := &gen.Type{K: gen.KArr, N: n, Elem: elemT}
	a := &gen.Var{Name: "a", T: arrT}
	prog := &gen.Program{Features: map[string]bool{}}
	var main []gen.Stmt
	// canaries before and after the array
	main = append(main, &gen.Let{Name: "c0", T: I64, Init: lit(I64, 0x1111111111111111), Annot: true})
	al := &gen.ArrLit{T: arrT}
	for i := 0; i < n; i++ {
		al.Elems = append(al.Elems, lit(elemT, int64(10*(i+1)+rng.IntN(9))))
	}
	main = append(main, &gen.Let{Name: "a", T: arrT, Init: al, Annot: true})
	main = append(main, &gen.Let{Name: "c1", T: I64, Init: lit(I64, 0x2222222222222222), Annot: true})
	tn := 0
	readAt := func(idx gen.Expr) []gen.Stmt {
		tn++
		name := fmt.Sprintf("t%d", tn)
		return []gen.Stmt{&gen.Let{Name: name, T: elemT, Init: &gen.Index{X: a, I: idx, T: elemT}, Annot: true}, &gen.Print{X: &gen.Var{Name: name, T: elemT}}}
	}
	writeAt := func(idx gen.Expr, v int64) gen.Stmt {
		return &gen.Assign{LHS: &gen.Index{X: a, I: idx, T: elemT}, Op: "=", RHS: lit(elemT, v)}
	}
	inRange := func() int64 {
		k := int64(rng.IntN(n))
		if rng.IntN(3) == 0 {
			k -= int64(n)
		}
		return k
	}
	anyIdx := func() int64 { // mostly in range, sometimes just outside
		switch rng.IntN(8) {
		case 0:
			return int64(n)
		case 1:
			return -int64(n) - 1
		case 2:
			return int64(n + 1 + rng.IntN(5))
		}
		return inRange()
	}
	i := &gen.Var{Name: "i", T: I32}
	out := c04Prog{mustAccept: false}
	sc := rng.IntN(20)
	if sc >= 10 {
		// compositional index flow: assignments, uses, branches, match arms, loops, blocks,
		// closures, &' calls and catch handlers nested at random; the opaque selector `sel`
		// decides at run time which path is taken
		out.scenario = "random-flow"
		rt := &gen.Type{K: gen.KRef, Elem: I32, Mut: true}
		setidx := &gen.Func{Name: "setidx", Params: []gen.Param{{Name: "r", T: rt}, {Name: "v", T: I32}}, Ret: gen.TVoid,
			Body: []gen.Stmt{&gen.Assign{LHS: &gen.Var{Name: "r", T: rt}, Op: "=", RHS: &gen.Var{Name: "v", T: I32}}}}
		opq := &gen.Func{Name: "opq", Params: []gen.Param{{Name: "v", T: I32}}, Ret: I32, Body: []gen.Stmt{&gen.Return{X: &gen.Var{Name: "v", T: I32}}}}
		mayFail := &gen.Func{Name: "mayFail", Params: []gen.Param{{Name: "v", T: I32}}, Ret: I32, ErrStr: true, Body: []gen.Stmt{
			&gen.If{Cond: &gen.Bin{Op: "==", L: &gen.Var{Name: "v", T: I32}, R: lit(I32, 0), T: gen.TBool}, Then: []gen.Stmt{&gen.ReturnErr{Msg: "zero"}}},
			&gen.Return{X: &gen.Var{Name: "v", T: I32}}}}
		prog.Funcs = append(prog.Funcs, setidx, opq)
		usesCatch := false
		main = append(main, &gen.Let{Name: "i", T: I32, Init: lit(I32, inRange())})
		main = append(main, &gen.Let{Name: "sel", T: I32, Init: &gen.Call{Fn: opq, Args: []gen.Expr{lit(I32, int64(rng.IntN(3)))}}, Annot: true})
		sel := &gen.Var{Name: "sel", T: I32}
		cnt := 0
		// The generator tracks whether a sound flow analysis can know the value of i (known) and
		// places uses of a[i] only there, so the program should be accepted; where the compiler
		// is more conservative it may still reject with T0028 (allowed). noAssign: inside a loop
		// body that must leave i alone.
		wild := rng.IntN(2) == 0
		if wild {
			out.scenario = "random-flow-with-unknown-index-uses"
		}
		var flow func(depth int, known, noAssign bool) (ss []gen.Stmt, knownAfter, mod bool)
		flow = func(depth int, known, noAssign bool) ([]gen.Stmt, bool, bool) {
			var ss []gen.Stmt
			mod := false
			assign := func() {
				ss = append(ss, &gen.Assign{LHS: i, Op: "=", RHS: lit(I32, inRange())})
				known, mod = true, true
			}
			for k, m := 0, 2+rng.IntN(4); k < m; k++ {
				c := rng.IntN(13)
				if depth <= 0 && c >= 6 {
					c = rng.IntN(6)
				}
				switch c {
				case 0, 1, 2:
					if !known && wild && rng.IntN(2) == 0 {
						// a use where no sound analysis knows i: the compiler must reject the
						// program (T0028) or index dynamically; a stale constant shows up as a
						// wrong element
					} else if !known {
						if noAssign {
							continue
						}
						assign()
					}
					if rng.IntN(3) == 0 {
						ss = append(ss, writeAt(i, int64(40+rng.IntN(50))))
					} else {
						ss = append(ss, readAt(i)...)
					}
				case 3, 4:
					if !noAssign {
						assign()
					}
				case 5:
					if noAssign {
						continue
					}
					if rng.IntN(2) == 0 {
						ss = append(ss, &gen.IncDec{X: i, Inc: rng.IntN(2) == 0})
					} else {
						ss = append(ss, &gen.Assign{LHS: i, Op: []string{"+=", "-="}[rng.IntN(2)], RHS: lit(I32, int64(1+rng.IntN(2)))})
					}
					known, mod = false, true
				case 6, 7:
					st := &gen.If{Cond: &gen.Bin{Op: []string{"==", "!=", "<"}[rng.IntN(3)], L: sel, R: lit(I32, int64(rng.IntN(3))), T: gen.TBool}}
					var m1, m2 bool
					st.Then, _, m1 = flow(depth-1, known, noAssign)
					if rng.IntN(4) != 0 {
						st.Else, _, m2 = flow(depth-1, known, noAssign)
					}
					if m1 || m2 {
						known, mod = false, true
					}
					ss = append(ss, st)
				case 8:
					m := &gen.Match{Subj: sel, HasDef: true}
					anyMod := false
					for a, na := 0, 1+rng.IntN(2); a < na; a++ {
						body, _, bm := flow(depth-1, known, noAssign)
						m.Arms = append(m.Arms, gen.MatchArm{Pat: lit(I32, int64(a)), Body: body})
						anyMod = anyMod || bm
					}
					var dm bool
					m.Default, _, dm = flow(depth-1, known, noAssign)
					if anyMod || dm {
						known, mod = false, true
					}
					ss = append(ss, m)
				case 9, 10:
					// a loop either leaves i alone (i keeps its knowledge) or modifies it (i is
					// unknown on entry of every iteration and afterwards)
					bodyMods := !noAssign && rng.IntN(2) == 0
					body, _, bm := flow(depth-1, known && !bodyMods, !bodyMods)
					if bodyMods && !bm {
						body = append(body, &gen.Assign{LHS: i, Op: "=", RHS: lit(I32, inRange())})
						bm = true
					}
					cnt++
					if c == 9 {
						w := &gen.Var{Name: fmt.Sprintf("w%d", cnt), T: I32}
						body = append(body, &gen.Assign{LHS: w, Op: "=", RHS: &gen.Bin{Op: "+", L: w, R: lit(I32, 1), T: I32}})
						ss = append(ss, &gen.Let{Name: w.Name, T: I32, Init: lit(I32, 0), Annot: true},
							&gen.While{Cond: &gen.Bin{Op: "<", L: w, R: lit(I32, int64(1+rng.IntN(3))), T: gen.TBool}, Body: body})
					} else {
						lo, hi := fmt.Sprintf("lo%d", cnt), fmt.Sprintf("hi%d", cnt)
						ss = append(ss, &gen.Let{Name: lo, T: I32, Init: lit(I32, 0), Annot: true}, &gen.Let{Name: hi, T: I32, Init: lit(I32, int64(1+rng.IntN(3))), Annot: true},
							&gen.ForRange{Var: fmt.Sprintf("q%d", cnt), T: I32, Lo: &gen.Var{Name: lo, T: I32}, Hi: &gen.Var{Name: hi, T: I32}, Body: body})
					}
					if bm {
						known, mod = false, true
					}
				case 11:
					body, ka, bm := flow(depth-1, known, noAssign)
					ss = append(ss, &gen.Block{Body: body})
					known, mod = ka, mod || bm
				default:
					if noAssign {
						continue
					}
					if rng.IntN(2) == 0 {
						ss = append(ss, &gen.ExprStmt{X: &gen.Call{Fn: setidx, Args: []gen.Expr{&gen.Borrow{Mut: true, X: i}, lit(I32, inRange())}}})
					} else {
						usesCatch = true
						cnt++
						ss = append(ss, &gen.Let{Name: fmt.Sprintf("cv%d", cnt), T: I32, Annot: true, Init: &gen.Catch{
							Call: &gen.Call{Fn: mayFail, Args: []gen.Expr{sel}}, ErrVar: "er",
							Handler: []gen.Stmt{&gen.Assign{LHS: i, Op: "=", RHS: lit(I32, inRange())}}, Fallback: lit(I32, 7)}})
					}
					known, mod = false, true
				}
			}
			return ss, known, mod
		}
		body, _, _ := flow(2+rng.IntN(2), true, false)
		main = append(main, body...)
		if usesCatch {
			prog.Funcs = append(prog.Funcs, mayFail)
		}
	}
	switch sc {
	case 0: // literals and consts only: must be accepted
		out.scenario, out.mustAccept = "literal-and-const", true
		main = append(main, &gen.Let{Name: "K", T: I32, Init: lit(I32, inRange()), Const: true})
		main = append(main, readAt(lit(I32, inRange()))...)
		main = append(main, readAt(&gen.Var{Name: "K", T: I32})...)
		main = append(main, writeAt(lit(I32, inRange()), 77))
		main = append(main, writeAt(&gen.Var{Name: "K", T: I32}, 88))
	case 1: // reassigned between uses
		out.scenario = "reassigned-between-uses"
		main = append(main, &gen.Let{Name: "i", T: I32, Init: lit(I32, inRange())})
		main = append(main, readAt(i)...)
		main = append(main, &gen.Assign{LHS: i, Op: "=", RHS: lit(I32, anyIdx())})
		main = append(main, readAt(i)...)
		main = append(main, writeAt(i, 55))
		main = append(main, &gen.Assign{LHS: i, Op: "=", RHS: lit(I32, inRange())})
		main = append(main, readAt(i)...)
	case 2: // assigned in one branch
		out.scenario = "branch-dependent"
		main = append(main, &gen.Let{Name: "i", T: I32, Init: lit(I32, inRange())})
		main = append(main, &gen.Let{Name: "flag", T: gen.TBool, Init: &gen.Lit{T: gen.TBool, I: int64(rng.IntN(2))}, Annot: true})
		main = append(main, &gen.If{Cond: &gen.Var{Name: "flag", T: gen.TBool}, Then: []gen.Stmt{&gen.Assign{LHS: i, Op: "=", RHS: lit(I32, anyIdx())}}})
		main = append(main, readAt(i)...)
		main = append(main, writeAt(i, 66))
	case 3: // loop-carried index
		out.scenario = "loop-carried"
		main = append(main, &gen.Let{Name: "i", T: I32, Init: lit(I32, 0)})
		bound := int64(n)
		if rng.IntN(4) == 0 {
			bound++ // runs one past the end
		}
		body := append(readAt(i), &gen.Assign{LHS: i, Op: "=", RHS: &gen.Bin{Op: "+", L: i, R: lit(I32, 1), T: I32}})
		main = append(main, &gen.While{Cond: &gen.Bin{Op: "<", L: i, R: lit(I32, bound), T: gen.TBool}, Body: body})
	case 4: // compound / ++ on the index
		out.scenario = "incremented"
		main = append(main, &gen.Let{Name: "i", T: I32, Init: lit(I32, 0)})
		main = append(main, readAt(i)...)
		if rng.IntN(2) == 0 {
			main = append(main, &gen.IncDec{X: i, Inc: true})
		} else {
			main = append(main, &gen.Assign{LHS: i, Op: "+=", RHS: lit(I32, int64(1+rng.IntN(n)))})
		}
		main = append(main, readAt(i)...)
		main = append(main, writeAt(i, 44))
	case 5: // index modified through a mutable reference passed to a function
		out.scenario = "modified-through-reference"
		rt := &gen.Type{K: gen.KRef, Elem: I32, Mut: true}
		f := &gen.Func{Name: "setidx", Params: []gen.Param{{Name: "r", T: rt}, {Name: "v", T: I32}}, Ret: gen.TVoid,
			Body: []gen.Stmt{&gen.Assign{LHS: &gen.Var{Name: "r", T: rt}, Op: "=", RHS: &gen.Var{Name: "v", T: I32}}}}
		prog.Funcs = append(prog.Funcs, f)
		main = append(main, &gen.Let{Name: "i", T: I32, Init: lit(I32, inRange())})
		main = append(main, readAt(i)...)
		main = append(main, &gen.ExprStmt{X: &gen.Call{Fn: f, Args: []gen.Expr{&gen.Borrow{Mut: true, X: i}, lit(I32, anyIdx())}}})
		main = append(main, readAt(i)...)
	case 6: // index modified by a closure
		out.scenario = "modified-by-closure"
		main = append(main, &gen.Let{Name: "i", T: I32, Init: lit(I32, 0)})
		cl := &gen.Closure{Params: []gen.Param{{Name: "y", T: I32}}, Ret: I32, Body: []gen.Stmt{
			&gen.Assign{LHS: i, Op: "=", RHS: &gen.Bin{Op: "+", L: i, R: lit(I32, 1), T: I32}}, &gen.Return{X: &gen.Bin{Op: "+", L: &gen.Var{Name: "y", T: I32}, R: i, T: I32}}}}
		main = append(main, &gen.LetClosure{Name: "step", C: cl})
		main = append(main, readAt(i)...)
		main = append(main, &gen.Let{Name: "u", T: I32, Init: &gen.ClosureCall{Name: "step", C: cl, Args: []gen.Expr{lit(I32, 0)}}, Annot: true})
		main = append(main, readAt(i)...)
	case 7: // arithmetic on a known index
		out.scenario = "index-arithmetic"
		k0 := int64(rng.IntN(n))
		main = append(main, &gen.Let{Name: "i", T: I32, Init: lit(I32, k0)})
		d := int64(rng.IntN(3))
		main = append(main, readAt(&gen.Bin{Op: "+", L: i, R: lit(I32, d), T: I32})...)
		main = append(main, readAt(&gen.Bin{Op: "-", L: i, R: lit(I32, int64(rng.IntN(n+1))), T: I32})...)
	case 8: // index from a function (opaque)
		out.scenario = "opaque-index"
		f := &gen.Func{Name: "pickidx", Ret: I32, Body: []gen.Stmt{&gen.Return{X: lit(I32, anyIdx())}}}
		prog.Funcs = append(prog.Funcs, f)
		main = append(main, &gen.Let{Name: "i", T: I32, Init: &gen.Call{Fn: f}})
		main = append(main, readAt(i)...)
	case 9: // match arms assigning the index
		out.scenario = "match-dependent"
		main = append(main, &gen.Let{Name: "i", T: I32, Init: lit(I32, inRange())})
		main = append(main, &gen.Let{Name: "sel", T: I32, Init: lit(I32, int64(rng.IntN(3))), Annot: true})
		main = append(main, &gen.Match{Subj: &gen.Var{Name: "sel", T: I32}, HasDef: true,
			Arms:    []gen.MatchArm{{Pat: lit(I32, 0), Body: []gen.Stmt{&gen.Assign{LHS: i, Op: "=", RHS: lit(I32, anyIdx())}}}, {Pat: lit(I32, 1), Body: []gen.Stmt{&gen.Assign{LHS: i, Op: "=", RHS: lit(I32, inRange())}}}},
			Default: []gen.Stmt{}})
		main = append(main, readAt(i)...)
		main = append(main, writeAt(i, 33))
	}
	// dump every element through literal indices, then the canaries
	for k := 0; k < n; k++ {
		main = append(main, readAt(lit(I32, int64(k)))...)
	}
	main = append(main, &gen.Print{X: &gen.Var{Name: "c0", T: I64}}, &gen.Print{X: &gen.Var{Name: "c1", T: I64}})
	prog.Main = main
	out.p = prog
	return out
}

func checkC04(c *Ctx) error {
	r := c.R
	r.Rule = "generated programs over [N]T (N 2-6, all integer element widths) whose index is a literal, a const, a let-bound variable reassigned between uses, assigned in one branch / match arm, loop-carried, incremented, modified through &' or by a closure, computed by index arithmetic or returned by a function, uses at points where no sound analysis knows the index; plus a directed matrix {28 containers that modify (or merely negate) the index (also: assignment in one branch and the use in the sibling branch or a later match arm): plain, if/else/else-if, match arm/default, block, &' call, catch handler, closure, inner loops, compound, ++, nestings, assignment in one branch while the other branch leaves by continue/break/return} x {7 use positions: none besides the container's own, after, loop-carried before/after in while/for, in a later branch, in a later closure} x {modification taken, not taken} x {index known / unknown before the container}; canary locals around the array; reference interpreter with dynamic index semantics. Allowed: compile-time rejection with T0028/T0009 (never for literal/const in-range programs), or output == reference, or a panic exactly where the reference panics. non-trivial = a distinct program whose verdict was decided (accepted-and-equal, or rejected for the permitted reason)"
	r.Assumptions = []string{"a rejection is attributed to the array rule only if every error diagnostic is T0028 or T0009"}
	n := c.N(60, 1500)
	runProbes(c, "C04", core.Native)
	matrix := c04Matrix()
	core.ParDo(n+len(matrix), 5, func(i int) {
		var cp c04Prog
		var id string
		if i < n {
			cp = c04Generate(r.Rng(i))
			id = fmt.Sprintf("gen:%d:%d", c.Env.Seed, i)
		} else {
			cp = matrix[i-n]
			id = fmt.Sprintf("%s:%d", cp.scenario, (i-n)%2)
			r.Count("matrix_programs", 1)
		}
		src := cp.p.Source()
		exp := gen.Run(cp.p)
		r.Eval()
		if exp.Internal != "" || exp.Timeout || exp.FellOff != "" {
			r.Fail(core.Failure{Case: id, Signature: "HARNESS generator/interpreter bug", Detail: fmt.Sprintf("%+v\n%s", exp, src), Replay: src})
			return
		}
		pr, err := buildAndRun(c, "c04", i, src, core.Native, !c.Quick() && i%10 == 0)
		if err != nil {
			r.Inconclusive(err.Error())
			return
		}
		if pr.Compile.Crash != "" {
			r.Fail(core.Failure{Case: id, Signature: "compiler-crash: " + pr.Compile.Crash, Detail: src, Replay: src})
			return
		}
		if !pr.Compile.Accepted() {
			onlyArrayRule := pr.Compile.CleanReject()
			for _, d := range core.Errors(pr.Compile.Diags) {
				if d.Code != "T0028" && d.Code != "T0009" {
					onlyArrayRule = false
				}
			}
			if cp.mustAccept || !onlyArrayRule {
				r.Fail(core.Failure{Case: id, Signature: "rejected-although-permitted-by-the-rule: " + core.Short(pr.Compile.FirstError(), 60), Detail: fmt.Sprintf("scenario %s mustAccept=%v\n%s\n%s", cp.scenario, cp.mustAccept, core.Short(core.StripANSI(pr.Compile.Proc.Stderr), 800), src), Replay: src})
				return
			}
			r.Nontrivial(src)
			r.Count("rejected."+cp.scenario, 1)
			if i < 2 || i == n {
				r.Sample(map[string]interface{}{"scenario": cp.scenario, "verdict": "rejected: " + pr.Compile.FirstError(), "program": src})
			}
			return
		}
		if pr.Run.Kind == core.RunTimeout || pr.Run.Kind == core.RunError {
			r.Inconclusive(id + " run " + string(pr.Run.Kind))
			return
		}
		if pr.Run.Proc.Exit == 97 {
			r.Fail(core.Failure{Case: id, Signature: "valgrind: " + firstValgrindLine(pr.Run.Proc.Stderr), Detail: src, Replay: src})
			return
		}
		if sig, det := compareWithReference(exp, pr.Run); sig != "" {
			r.Fail(core.Failure{Case: id, Signature: sig, Detail: fmt.Sprintf("scenario %s\n%s\n%s", cp.scenario, det, src), Replay: src})
			return
		}
		r.Nontrivial(src)
		if exp.Panic != "" {
			r.Count("accepted_and_panicked_like_reference."+cp.scenario, 1)
		} else {
			r.Count("accepted_and_equal."+cp.scenario, 1)
		}
		if i < 3 || i == n+1 || i == n+7 {
			r.Sample(map[string]interface{}{"scenario": cp.scenario, "program": src, "reference": exp.Lines, "panic": exp.Panic})
		}
	})
	_ = strings.Join
	return nil
}

// c04Containers are the syntactic places in which the index variable is modified.
var c04Containers = []string{"plain", "if-then", "if-else", "else-if", "match-arm", "match-default", "block", "mutref-call", "catch-handler", "closure", "inner-while", "inner-for", "compound", "incdec", "match-in-if", "if-in-match", "if-assign-else-jump", "if-jump-else-assign", "match-assign-default-jump", "match-jump-default-assign", "if-assign-else-use", "if-use-else-assign", "arm-assign-later-arm-use", "arm-assign-default-use", "else-if-assign-else-use", "unary-minus-in-index", "unary-minus-in-let", "unary-minus-in-call"}

// c04Wrappers are the positions of the use relative to the modification.
var c04Wrappers = []string{"no-later-use", "straight-use-after", "while-use-before", "for-use-before", "while-use-after", "use-in-branch-after", "use-in-closure-after"}

// c04MatrixProgram builds one directed program: index variable i starts at a known constant, a
// container modifies it (when the opaque selector is 0), and the array is read through i at a
// position where only a flow analysis that accounts for that container gets the value right.
func c04MatrixProgram(container, wrapper string, selVal int64, variant int, opaqueInit bool) c04Prog {
	I32, I64 := gen.I32, gen.I64
	lit := func(t *gen.Type, v int64) *gen.Lit { return &gen.Lit{T: t, I: gen.Norm(t, v)} }
	n := 4
	elemT := []*gen.Type{gen.I32, gen.I64, gen.U8, gen.I16}[variant%4]
	arrT := &gen.Type{K: gen.KArr, N: n, Elem: elemT}
	a := &gen.Var{Name: "a", T: arrT}
	prog := &gen.Program{Features: map[string]bool{}}
	var main []gen.Stmt
	main = append(main, &gen.Let{Name: "c0", T: I64, Init: lit(I64, 0x1111111111111111), Annot: true})
	al := &gen.ArrLit{T: arrT}
	for k := 0; k < n; k++ {
		al.Elems = append(al.Elems, lit(elemT, int64(10*(k+1)+k)))
	}
	main = append(main, &gen.Let{Name: "a", T: arrT, Init: al, Annot: true})
	main = append(main, &gen.Let{Name: "c1", T: I64, Init: lit(I64, 0x2222222222222222), Annot: true})
	tn := 0
	readAt := func(idx gen.Expr) []gen.Stmt {
		tn++
		name := fmt.Sprintf("t%d", tn)
		return []gen.Stmt{&gen.Let{Name: name, T: elemT, Init: &gen.Index{X: a, I: idx, T: elemT}, Annot: true}, &gen.Print{X: &gen.Var{Name: name, T: elemT}}}
	}
	i := &gen.Var{Name: "i", T: I32}
	v1, v2 := int64(variant%2), int64(2+variant%2) // i starts at 0/1 and is moved to 2/3
	rt := &gen.Type{K: gen.KRef, Elem: I32, Mut: true}
	setidx := &gen.Func{Name: "setidx", Params: []gen.Param{{Name: "r", T: rt}, {Name: "v", T: I32}}, Ret: gen.TVoid,
		Body: []gen.Stmt{&gen.Assign{LHS: &gen.Var{Name: "r", T: rt}, Op: "=", RHS: &gen.Var{Name: "v", T: I32}}}}
	opq := &gen.Func{Name: "opq", Params: []gen.Param{{Name: "v", T: I32}}, Ret: I32, Body: []gen.Stmt{&gen.Return{X: &gen.Var{Name: "v", T: I32}}}}
	mayFail := &gen.Func{Name: "mayFail", Params: []gen.Param{{Name: "v", T: I32}}, Ret: I32, ErrStr: true, Body: []gen.Stmt{
		&gen.If{Cond: &gen.Bin{Op: "==", L: &gen.Var{Name: "v", T: I32}, R: lit(I32, 0), T: gen.TBool}, Then: []gen.Stmt{&gen.ReturnErr{Msg: "zero"}}},
		&gen.Return{X: &gen.Var{Name: "v", T: I32}}}}
	prog.Funcs = append(prog.Funcs, opq)
	if opaqueInit { // the index has no compile-time-known value before the container
		main = append(main, &gen.Let{Name: "i", T: I32, Init: &gen.Call{Fn: opq, Args: []gen.Expr{lit(I32, v1)}}, Annot: true})
	} else {
		main = append(main, &gen.Let{Name: "i", T: I32, Init: lit(I32, v1)})
	}
	main = append(main, &gen.Let{Name: "sel", T: I32, Init: &gen.Call{Fn: opq, Args: []gen.Expr{lit(I32, selVal)}}, Annot: true})
	sel := &gen.Var{Name: "sel", T: I32}
	selIs := func(v int64) gen.Expr { return &gen.Bin{Op: "==", L: sel, R: lit(I32, v), T: gen.TBool} }
	set := func() gen.Stmt { return &gen.Assign{LHS: i, Op: "=", RHS: lit(I32, v2)} }
	// the jump that leaves the enclosing construct: continue in a for loop, break in a while loop,
	// return from main otherwise
	jump := func() gen.Stmt {
		switch wrapper {
		case "for-use-before":
			return &gen.Continue{}
		case "while-use-before", "while-use-after":
			return &gen.Break{}
		}
		return &gen.Return{}
	}
	var pre []gen.Stmt // declarations the container needs before the wrapper
	var mod []gen.Stmt
	switch container {
	case "plain":
		mod = []gen.Stmt{set()}
	case "if-then":
		mod = []gen.Stmt{&gen.If{Cond: selIs(0), Then: []gen.Stmt{set()}}}
	case "if-else":
		mod = []gen.Stmt{&gen.If{Cond: selIs(1), Then: []gen.Stmt{&gen.Print{X: sel}}, Else: []gen.Stmt{set()}}}
	case "else-if":
		mod = []gen.Stmt{&gen.If{Cond: selIs(1), Then: []gen.Stmt{&gen.Print{X: sel}}, Else: []gen.Stmt{&gen.If{Cond: selIs(0), Then: []gen.Stmt{set()}}}}}
	case "match-arm":
		mod = []gen.Stmt{&gen.Match{Subj: sel, HasDef: true, Arms: []gen.MatchArm{{Pat: lit(I32, 0), Body: []gen.Stmt{set()}}}, Default: []gen.Stmt{}}}
	case "match-default":
		mod = []gen.Stmt{&gen.Match{Subj: sel, HasDef: true, Arms: []gen.MatchArm{{Pat: lit(I32, 1), Body: []gen.Stmt{&gen.Print{X: sel}}}}, Default: []gen.Stmt{set()}}}
	case "block":
		mod = []gen.Stmt{&gen.Block{Body: []gen.Stmt{set()}}}
	case "mutref-call":
		prog.Funcs = append(prog.Funcs, setidx)
		mod = []gen.Stmt{&gen.ExprStmt{X: &gen.Call{Fn: setidx, Args: []gen.Expr{&gen.Borrow{Mut: true, X: i}, lit(I32, v2)}}}}
	case "catch-handler":
		prog.Funcs = append(prog.Funcs, mayFail)
		mod = []gen.Stmt{&gen.Let{Name: "cv", T: I32, Annot: true, Init: &gen.Catch{Call: &gen.Call{Fn: mayFail, Args: []gen.Expr{sel}}, ErrVar: "er", Handler: []gen.Stmt{set()}, Fallback: lit(I32, 7)}}}
	case "closure":
		cl := &gen.Closure{Params: []gen.Param{{Name: "y", T: I32}}, Ret: I32, Body: []gen.Stmt{set(), &gen.Return{X: &gen.Var{Name: "y", T: I32}}}}
		pre = []gen.Stmt{&gen.LetClosure{Name: "step", C: cl}}
		mod = []gen.Stmt{&gen.Let{Name: "u", T: I32, Init: &gen.ClosureCall{Name: "step", C: cl, Args: []gen.Expr{lit(I32, 0)}}, Annot: true}}
	case "inner-while":
		w := &gen.Var{Name: "iw", T: I32}
		mod = []gen.Stmt{&gen.Let{Name: "iw", T: I32, Init: lit(I32, 0), Annot: true},
			&gen.While{Cond: &gen.Bin{Op: "<", L: w, R: lit(I32, 1), T: gen.TBool}, Body: []gen.Stmt{set(), &gen.Assign{LHS: w, Op: "=", RHS: &gen.Bin{Op: "+", L: w, R: lit(I32, 1), T: I32}}}}}
	case "inner-for":
		mod = []gen.Stmt{&gen.Let{Name: "flo", T: I32, Init: lit(I32, 0), Annot: true}, &gen.Let{Name: "fhi", T: I32, Init: lit(I32, 1), Annot: true},
			&gen.ForRange{Var: "fq", T: I32, Lo: &gen.Var{Name: "flo", T: I32}, Hi: &gen.Var{Name: "fhi", T: I32}, Body: []gen.Stmt{set()}}}
	case "compound":
		mod = []gen.Stmt{&gen.Assign{LHS: i, Op: "+=", RHS: lit(I32, 1)}}
	case "incdec":
		mod = []gen.Stmt{&gen.IncDec{X: i, Inc: true}}
	case "match-in-if":
		mod = []gen.Stmt{&gen.If{Cond: selIs(0), Then: []gen.Stmt{&gen.Match{Subj: sel, HasDef: true, Arms: []gen.MatchArm{{Pat: lit(I32, 0), Body: []gen.Stmt{set()}}}, Default: []gen.Stmt{}}}}}
	case "if-assign-else-jump":
		mod = []gen.Stmt{&gen.If{Cond: selIs(0), Then: []gen.Stmt{set()}, Else: []gen.Stmt{jump()}}}
	case "if-jump-else-assign":
		mod = []gen.Stmt{&gen.If{Cond: selIs(1), Then: []gen.Stmt{jump()}, Else: []gen.Stmt{set()}}}
	case "match-assign-default-jump":
		mod = []gen.Stmt{&gen.Match{Subj: sel, HasDef: true, Arms: []gen.MatchArm{{Pat: lit(I32, 0), Body: []gen.Stmt{set()}}}, Default: []gen.Stmt{jump()}}}
	case "match-jump-default-assign":
		mod = []gen.Stmt{&gen.Match{Subj: sel, HasDef: true, Arms: []gen.MatchArm{{Pat: lit(I32, 1), Body: []gen.Stmt{jump()}}}, Default: []gen.Stmt{set()}}}
	case "if-assign-else-use":
		mod = []gen.Stmt{&gen.If{Cond: selIs(0), Then: []gen.Stmt{set()}, Else: readAt(i)}}
	case "if-use-else-assign":
		mod = []gen.Stmt{&gen.If{Cond: selIs(1), Then: readAt(i), Else: []gen.Stmt{set()}}}
	case "arm-assign-later-arm-use":
		mod = []gen.Stmt{&gen.Match{Subj: sel, HasDef: true, Arms: []gen.MatchArm{{Pat: lit(I32, 0), Body: []gen.Stmt{set()}}, {Pat: lit(I32, 2), Body: readAt(i)}}, Default: []gen.Stmt{}}}
	case "arm-assign-default-use":
		mod = []gen.Stmt{&gen.Match{Subj: sel, HasDef: true, Arms: []gen.MatchArm{{Pat: lit(I32, 0), Body: []gen.Stmt{set()}}}, Default: readAt(i)}}
	case "else-if-assign-else-use":
		mod = []gen.Stmt{&gen.If{Cond: selIs(1), Then: []gen.Stmt{&gen.Print{X: sel}}, Else: []gen.Stmt{&gen.If{Cond: selIs(0), Then: []gen.Stmt{set()}, Else: readAt(i)}}}}
	case "unary-minus-in-index": // no modification at all: the index variable is only negated inside another index expression
		mod = readAt(&gen.Bin{Op: "-", L: &gen.Un{Op: "-", X: i}, R: lit(I32, 1), T: I32})
	case "unary-minus-in-let":
		mod = []gen.Stmt{&gen.Let{Name: "negi", T: I32, Init: &gen.Un{Op: "-", X: i}, Annot: true}, &gen.Print{X: &gen.Var{Name: "negi", T: I32}}}
	case "unary-minus-in-call":
		mod = []gen.Stmt{&gen.Let{Name: "negc", T: I32, Init: &gen.Call{Fn: opq, Args: []gen.Expr{&gen.Un{Op: "-", X: i}}}, Annot: true}, &gen.Print{X: &gen.Var{Name: "negc", T: I32}}}
	case "if-in-match":
		mod = []gen.Stmt{&gen.Match{Subj: sel, HasDef: true, Arms: []gen.MatchArm{{Pat: lit(I32, 0), Body: []gen.Stmt{&gen.If{Cond: selIs(0), Then: []gen.Stmt{set()}}}}}, Default: []gen.Stmt{}}}
	}
	main = append(main, pre...)
	k := &gen.Var{Name: "k", T: I32}
	kInc := &gen.Assign{LHS: k, Op: "=", RHS: &gen.Bin{Op: "+", L: k, R: lit(I32, 1), T: I32}}
	kLt := &gen.Bin{Op: "<", L: k, R: lit(I32, 2), T: gen.TBool}
	switch wrapper {
	case "no-later-use": // the only uses are the ones inside the container itself
		main = append(main, mod...)
	case "straight-use-after":
		if !opaqueInit {
			main = append(main, readAt(i)...)
		}
		main = append(main, mod...)
		main = append(main, readAt(i)...)
	case "while-use-before":
		main = append(main, &gen.Let{Name: "k", T: I32, Init: lit(I32, 0), Annot: true})
		body := append(readAt(i), mod...)
		body = append(body, kInc)
		main = append(main, &gen.While{Cond: kLt, Body: body})
	case "for-use-before":
		main = append(main, &gen.Let{Name: "lo", T: I32, Init: lit(I32, 0), Annot: true}, &gen.Let{Name: "hi", T: I32, Init: lit(I32, 2), Annot: true})
		body := append(readAt(i), mod...)
		main = append(main, &gen.ForRange{Var: "q", T: I32, Lo: &gen.Var{Name: "lo", T: I32}, Hi: &gen.Var{Name: "hi", T: I32}, Body: body})
	case "while-use-after":
		main = append(main, &gen.Let{Name: "k", T: I32, Init: lit(I32, 0), Annot: true})
		body := append(append([]gen.Stmt{}, mod...), readAt(i)...)
		body = append(body, kInc)
		main = append(main, &gen.While{Cond: kLt, Body: body})
		main = append(main, readAt(i)...)
	case "use-in-branch-after":
		main = append(main, mod...)
		main = append(main, &gen.If{Cond: &gen.Bin{Op: "<", L: sel, R: lit(I32, 5), T: gen.TBool}, Then: readAt(i)})
	case "use-in-closure-after":
		main = append(main, mod...)
		cl := &gen.Closure{Params: []gen.Param{{Name: "z", T: I32}}, Ret: elemT, Body: []gen.Stmt{&gen.Return{X: &gen.Index{X: a, I: i, T: elemT}}}}
		main = append(main, &gen.LetClosure{Name: "peek", C: cl})
		main = append(main, &gen.Let{Name: "pv", T: elemT, Init: &gen.ClosureCall{Name: "peek", C: cl, Args: []gen.Expr{lit(I32, 0)}}, Annot: true}, &gen.Print{X: &gen.Var{Name: "pv", T: elemT}})
	}
	for q := 0; q < n; q++ {
		main = append(main, readAt(lit(I32, int64(q)))...)
	}
	main = append(main, &gen.Print{X: &gen.Var{Name: "c0", T: I64}}, &gen.Print{X: &gen.Var{Name: "c1", T: I64}})
	prog.Main = main
	sc := "matrix:" + container + "/" + wrapper
	if opaqueInit {
		sc += "/index-unknown-before"
	}
	return c04Prog{p: prog, scenario: sc}
}

func c04Matrix() []c04Prog {
	var out []c04Prog
	v := 0
	for _, co := range c04Containers {
		for _, w := range c04Wrappers {
			if w == "no-later-use" && !strings.Contains(co, "-use") {
				continue
			}
			for _, s := range []int64{0, 2} {
				out = append(out, c04MatrixProgram(co, w, s, v, false))
				v++
			}
			// the same with an index whose value is unknown before the container (only the positions
			// in which the container itself can make it known)
			if w == "no-later-use" || w == "straight-use-after" || w == "use-in-branch-after" || w == "while-use-after" {
				for _, s := range []int64{0, 2} {
					out = append(out, c04MatrixProgram(co, w, s, v, true))
					v++
				}
			}
		}
	}
	return out
}
