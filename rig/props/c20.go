package props

import (
	"fmt"
	"math"
	"math/rand/v2"
	"os"
	"path/filepath"
	"reflect"
	"sort"
	"strings"
	"unicode/utf8"

	"compiler/toml"

	"verifrig/core"
)

// C20 — TOML write/parse round trip (in-process reference-model monitor).
//
// Refuting events: Parse(Write(d)) != d (deep equality including the Go type of every value)
// for d in the writable domain; a panic of ParseTOMLFile on any content; parsed values that
// change when comment lines, inline comments or blanks are inserted.

func init() { register("C20", checkC20) }

var tomlSections = []string{"default", "compiler", "build", "cache", "external", "neighbors", "dependencies"}

const bareKeyAlphabet = "abcdefghijklmnopqrstuvwxyzABCDEFGHIJKLMNOPQRSTUVWXYZ0123456789_-"

func genKey(rng *rand.Rand) string {
	n := 1 + rng.IntN(12)
	b := make([]byte, n)
	for i := range b {
		b[i] = bareKeyAlphabet[rng.IntN(len(bareKeyAlphabet))]
	}
	return string(b)
}

var hostileRunes = []rune{' ', '\t', '#', '=', '[', ']', '\'', ',', '.', ':', ';', '{', '}', '$', '%', 'é', 'ß', '日', '本', '😀', 0x00A0, 0x2028, 0x0085, 0x7f, 0x01, '-', '+', 'e', 'E', '0', '1', '9', 'x', '_', 't', 'r', 'u', 'f', 'a', 'l', 's', 'n', 'i'}

func genString(rng *rand.Rand) string {
	switch rng.IntN(12) {
	case 0:
		return ""
	case 1: // looks like a number
		return []string{"42", "-7", "3.14", "1e5", "0x10", "+3", "007", "inf", "nan", "-0", "1_000", "0.0"}[rng.IntN(12)]
	case 2: // looks almost like a bool
		return []string{"True", "FALSE", "true ", " false", "truee", "tru", "yes"}[rng.IntN(7)]
	case 3: // looks like structure
		return []string{"[section]", "# not a comment", "a = b", "key = value # c", "[", "]", "= =", "#", "[a] # b"}[rng.IntN(9)]
	case 4: // blanks around
		return strings.Repeat(" ", rng.IntN(4)) + "x y" + strings.Repeat(" ", 1+rng.IntN(4))
	case 5: // long
		return strings.Repeat("ab#= ", 10+rng.IntN(400))
	}
	n := rng.IntN(24)
	var sb strings.Builder
	for i := 0; i < n; i++ {
		if rng.IntN(3) == 0 {
			sb.WriteRune(hostileRunes[rng.IntN(len(hostileRunes))])
		} else {
			r := rune(0x20 + rng.IntN(0x5f))
			if rng.IntN(10) == 0 {
				r = rune(0xa0 + rng.IntN(0x2000))
			}
			sb.WriteRune(r)
		}
	}
	s := sb.String()
	s = strings.Map(func(r rune) rune {
		if r == '"' || r == '\\' || r == '\n' || r == '\r' {
			return 'q'
		}
		return r
	}, s)
	if s == "true" || s == "false" || !utf8.ValidString(s) {
		return "s" + s
	}
	return s
}

func genInt(rng *rand.Rand) int {
	switch rng.IntN(8) {
	case 0:
		return []int{0, 1, -1, math.MaxInt64, math.MinInt64, math.MaxInt32, math.MinInt32, 1 << 53, -(1 << 53), 1<<53 + 1}[rng.IntN(10)]
	case 1:
		return int(rng.Int64())
	case 2:
		return -int(rng.Int64())
	}
	return rng.IntN(2000) - 1000
}

func genFloat(rng *rand.Rand) float64 {
	switch rng.IntN(10) {
	case 0:
		return []float64{0, math.Copysign(0, -1), 1, -1, 3, 1e300, -1e300, 5e-324, math.MaxFloat64, math.SmallestNonzeroFloat64, 1e21, 1e22, 123456789012345680, 0.1, -0.5, 1e-7, 9007199254740993, 2.5e-10}[rng.IntN(18)]
	case 1:
		return float64(rng.IntN(100000) - 50000) // whole numbers
	case 2:
		return float64(rng.Int64()) // large whole numbers
	case 3:
		for {
			f := math.Float64frombits(rng.Uint64())
			if !math.IsNaN(f) && !math.IsInf(f, 0) {
				return f
			}
		}
	case 4:
		return math.Ldexp(rng.Float64(), rng.IntN(200)-100)
	}
	return (rng.Float64() - 0.5) * 2000
}

func genValue(rng *rand.Rand) toml.TOMLValue {
	switch rng.IntN(4) {
	case 0:
		return genString(rng)
	case 1:
		return rng.IntN(2) == 0
	case 2:
		return genInt(rng)
	}
	return genFloat(rng)
}

func genTable(rng *rand.Rand) toml.TOMLData {
	d := toml.TOMLData{}
	ns := 1 + rng.IntN(4)
	for i := 0; i < ns; i++ {
		sec := tomlSections[rng.IntN(len(tomlSections))]
		t := toml.TOMLTable{}
		nk := rng.IntN(6)
		if sec == "default" && nk == 0 {
			nk = 1 // an empty default table is not representable (DESIGN.md C20)
		}
		for j := 0; j < nk; j++ {
			t[genKey(rng)] = genValue(rng)
		}
		d[sec] = t
	}
	return d
}

func describe(d toml.TOMLData) string {
	var secs []string
	for s := range d {
		secs = append(secs, s)
	}
	sort.Strings(secs)
	var sb strings.Builder
	for _, s := range secs {
		fmt.Fprintf(&sb, "[%s]\n", s)
		var ks []string
		for k := range d[s] {
			ks = append(ks, k)
		}
		sort.Strings(ks)
		for _, k := range ks {
			v := d[s][k]
			if f, ok := v.(float64); ok {
				fmt.Fprintf(&sb, "  %s = float64(%s bits=%#x)\n", k, fmtFloat(f), math.Float64bits(f))
			} else {
				fmt.Fprintf(&sb, "  %s = %T(%q)\n", k, v, fmt.Sprint(v))
			}
		}
	}
	return sb.String()
}

func fmtFloat(f float64) string { return fmt.Sprintf("%g", f) }

// tomlEqual is deep equality including types; floats compared by bits so that -0.0 != 0.0.
func tomlEqual(a, b toml.TOMLData) (bool, string) {
	if len(a) != len(b) {
		return false, fmt.Sprintf("section count %d != %d", len(a), len(b))
	}
	for s, ta := range a {
		tb, ok := b[s]
		if !ok {
			return false, "missing section " + s
		}
		if len(ta) != len(tb) {
			return false, fmt.Sprintf("section %s: key count %d != %d", s, len(ta), len(tb))
		}
		for k, va := range ta {
			vb, ok := tb[k]
			if !ok {
				return false, fmt.Sprintf("section %s: missing key %q", s, k)
			}
			if reflect.TypeOf(va) != reflect.TypeOf(vb) {
				return false, fmt.Sprintf("section %s key %q: wrote %T(%v), read %T(%v)", s, k, va, va, vb, vb)
			}
			if fa, ok := va.(float64); ok {
				if math.Float64bits(fa) != math.Float64bits(vb.(float64)) {
					return false, fmt.Sprintf("section %s key %q: wrote float %v (bits %#x), read %v (bits %#x)", s, k, fa, math.Float64bits(fa), vb, math.Float64bits(vb.(float64)))
				}
				continue
			}
			if !reflect.DeepEqual(va, vb) {
				return false, fmt.Sprintf("section %s key %q: wrote %T(%q), read %T(%q)", s, k, va, fmt.Sprint(va), vb, fmt.Sprint(vb))
			}
		}
	}
	return true, ""
}

func safeParse(path string) (d toml.TOMLData, err error, panicked string) {
	defer func() {
		if r := recover(); r != nil {
			panicked = fmt.Sprint(r)
		}
	}()
	d, err = toml.ParseTOMLFile(path)
	return
}

func safeWrite(path string, d toml.TOMLData, ic map[string]map[string]string) (err error, panicked string) {
	defer func() {
		if r := recover(); r != nil {
			panicked = fmt.Sprint(r)
		}
	}()
	err = toml.WriteTOMLFile(path, d, ic)
	return
}

// insertTrivia adds comment lines, blank lines, inline comments and blanks around key / = / value.
func insertTrivia(text string, rng *rand.Rand) string {
	lines := strings.Split(text, "\n")
	var out []string
	for _, l := range lines {
		for rng.IntN(4) == 0 {
			out = append(out, []string{"", "   ", "# a comment", "  # indented = comment [x]", "#", "\t", "# \"quoted\" # twice"}[rng.IntN(7)])
		}
		t := strings.TrimSpace(l)
		if t == "" || strings.HasPrefix(t, "#") {
			out = append(out, l)
			continue
		}
		if strings.HasPrefix(t, "[") {
			out = append(out, strings.Repeat(" ", rng.IntN(3))+t+strings.Repeat(" ", rng.IntN(3)))
			continue
		}
		// key = value : split at first " = "
		i := strings.Index(l, " = ")
		if i < 0 {
			out = append(out, l)
			continue
		}
		k, v := l[:i], l[i+3:]
		pad := func() string { return strings.Repeat([]string{" ", "\t", "  "}[rng.IntN(3)], rng.IntN(3)) }
		nl := pad() + k + pad() + "=" + pad() + v + pad()
		if rng.IntN(2) == 0 {
			nl += []string{" # c", "# tight", " # with \"quotes\" inside", " # = [x] #", "\t#tab"}[rng.IntN(5)]
		}
		out = append(out, nl)
	}
	return strings.Join(out, "\n")
}

func hostileBytes(rng *rand.Rand) []byte {
	switch rng.IntN(8) {
	case 0: // pure random
		b := make([]byte, rng.IntN(600))
		for i := range b {
			b[i] = byte(rng.IntN(256))
		}
		return b
	case 1: // long line
		return []byte("k = \"" + strings.Repeat("x", 60000+rng.IntN(20000)) + "\"\n")
	case 2: // NULs and unterminated quotes
		return []byte("a = \"unterminated\nb = \"\x00\x00\"\n[\n]\n[]\n= 5\n=\n\"\n\\\n")
	case 3: // many sections
		var sb strings.Builder
		for i := 0; i < 200; i++ {
			fmt.Fprintf(&sb, "[s%d]\nk%d = %d\n", i, i, i)
		}
		return []byte(sb.String())
	}
	// token soup
	toks := []string{"[", "]", "=", "#", "\"", "\\", "\n", "\r\n", " ", "\t", "true", "false", "1", "-", ".", "e", "key", "\x00", "\xff", "[[", "]]", "''", "\"\"\"", "0x", "_"}
	var sb strings.Builder
	n := rng.IntN(120)
	for i := 0; i < n; i++ {
		sb.WriteString(toks[rng.IntN(len(toks))])
	}
	return []byte(sb.String())
}

func checkC20(c *Ctx) error {
	r := c.R
	r.Rule = "random tables over the writable domain (writer's sections; bare keys; strings without quote/backslash/CR/LF and != true/false; bools; ints; finite floats) written with WriteTOMLFile (onto fresh paths and onto existing, longer and shorter files) and re-read with ParseTOMLFile; non-trivial = a distinct table with >=1 key whose round trip was compared value by value (type and bits). Plus hostile byte strings for the no-crash part and trivia-insertion variants of every written file."
	r.Assumptions = []string{"compiler/toml linked in-process from /repo's working tree (rig rebuilt by ./vcheck)", "an empty default table is outside the domain (not representable)", "strings are valid UTF-8"}
	dir := c.Env.CaseDir("c20")
	nTables := c.N(3000, 200000)
	nBytes := c.N(3000, 200000)

	type pinned struct {
		name string
		d    toml.TOMLData
	}
	pins := []pinned{
		{"whole-float", toml.TOMLData{"default": {"x": float64(3)}}},
		{"neg-zero", toml.TOMLData{"build": {"z": math.Copysign(0, -1)}}},
		{"long-string", toml.TOMLData{"default": {"s": strings.Repeat("y", 70000)}}},
		{"hash-in-string", toml.TOMLData{"compiler": {"s": "a # b = c [d]"}}},
		{"blank-padded", toml.TOMLData{"cache": {"s": "  padded  "}}},
		{"numeric-string", toml.TOMLData{"external": {"s": "42", "t": "1.5", "u": "-0"}}},
		{"big-float", toml.TOMLData{"neighbors": {"f": 1e300, "g": 5e-324, "h": math.MaxFloat64}}},
		{"int-extremes", toml.TOMLData{"dependencies": {"a": math.MaxInt64, "b": math.MinInt64}}},
		{"empty-section", toml.TOMLData{"default": {"k": 1}, "build": {}}},
		{"empty-string", toml.TOMLData{"default": {"e": ""}}},
	}

	one := func(caseID string, d toml.TOMLData, rng *rand.Rand, widx int) {
		r.Eval()
		p := filepath.Join(dir, fmt.Sprintf("w%d.toml", widx))
		// configuration files are rewritten in place: half of the writes land on an existing file
		// holding another table, longer or shorter than the new content
		if rng != nil && rng.IntN(2) == 0 {
			if err, pn := safeWrite(p, genTable(rng), nil); err != nil || pn != "" {
				r.Fail(core.Failure{Case: caseID, Signature: "write-failed", Detail: fmt.Sprintf("first write: err=%v panic=%s", err, pn), Replay: describe(d)})
				return
			}
			r.Count("rewrites_of_an_existing_file", 1)
		}
		var ic map[string]map[string]string
		if rng != nil && rng.IntN(3) == 0 { // the writer's own inline comments
			ic = map[string]map[string]string{}
			for s, t := range d {
				ic[s] = map[string]string{}
				for k := range t {
					if rng.IntN(2) == 0 {
						ic[s][k] = []string{"note", "a \"quoted\" note", "x = y # z", "[sec]"}[rng.IntN(4)]
					}
				}
			}
		}
		if err, pn := safeWrite(p, d, ic); err != nil || pn != "" {
			r.Fail(core.Failure{Case: caseID, Signature: "write-failed", Detail: fmt.Sprintf("err=%v panic=%s\n%s", err, pn, describe(d)), Replay: describe(d)})
			return
		}
		got, err, pn := safeParse(p)
		if pn != "" {
			r.Fail(core.Failure{Case: caseID, Signature: "parse-panic", Detail: pn + "\n" + describe(d), Replay: describe(d)})
			return
		}
		if err != nil {
			r.Fail(core.Failure{Case: caseID, Signature: "parse-error", Detail: core.Short(err.Error(), 200) + "\n" + core.Short(describe(d), 600), Replay: core.Short(describe(d), 4000)})
			return
		}
		if ok, why := tomlEqual(d, got); !ok {
			sig := "roundtrip-mismatch"
			if strings.Contains(why, "wrote float64") && strings.Contains(why, "read int") {
				sig = "roundtrip-float-read-as-int"
			}
			r.Fail(core.Failure{Case: caseID, Signature: sig, Detail: why + "\n" + core.Short(describe(d), 1200), Replay: core.Short(describe(d), 4000)})
			return
		}
		nk := 0
		for _, t := range d {
			nk += len(t)
		}
		if nk > 0 {
			r.Nontrivial(describe(d))
			r.Count("values_compared", nk)
		}
		// trivia insertion must not change the parsed values
		if rng != nil {
			text, _ := os.ReadFile(p)
			p2 := filepath.Join(dir, fmt.Sprintf("t%d.toml", widx))
			t2 := insertTrivia(string(text), rng)
			os.WriteFile(p2, []byte(t2), 0o644)
			got2, err, pn := safeParse(p2)
			if pn != "" || err != nil {
				r.Fail(core.Failure{Case: caseID, Signature: "trivia-parse-failed", Detail: fmt.Sprintf("err=%v panic=%s\n%s", err, pn, core.Short(t2, 1500)), Replay: core.Short(t2, 4000)})
				return
			}
			if ok, why := tomlEqual(d, got2); !ok {
				r.Fail(core.Failure{Case: caseID, Signature: "trivia-changed-values", Detail: why + "\n--- file with trivia ---\n" + core.Short(t2, 1500), Replay: core.Short(t2, 4000)})
				return
			}
			r.Count("trivia_variants", 1)
		}
	}

	for i, p := range pins {
		one("probe:"+p.name, p.d, nil, 1000000+i)
	}
	// generated tables, spread over workers (each worker has its own file names)
	core.ParDo(nTables, 0, func(i int) {
		rng := r.Rng(i)
		d := genTable(rng)
		if i < 3 {
			r.Sample(map[string]interface{}{"kind": "table", "table": core.Short(describe(d), 600)})
		}
		one(fmt.Sprintf("gen:%d:%d", c.Env.Seed, i), d, rng, i)
	})
	// no-crash part
	core.ParDo(nBytes, 0, func(i int) {
		rng := core.CaseRng(c.Env.Seed, "C20-bytes", i)
		b := hostileBytes(rng)
		p := filepath.Join(dir, fmt.Sprintf("b%d.toml", i))
		os.WriteFile(p, b, 0o644)
		r.Eval()
		got, err, pn := safeParse(p)
		if pn != "" {
			r.Fail(core.Failure{Case: fmt.Sprintf("bytes:%d:%d", c.Env.Seed, i), Signature: "parse-panic", Detail: pn, Replay: fmt.Sprintf("%q", b)})
			return
		}
		if err == nil {
			for _, t := range got {
				for _, v := range t {
					switch v.(type) {
					case string, bool, int, float64:
					default:
						r.Fail(core.Failure{Case: fmt.Sprintf("bytes:%d:%d", c.Env.Seed, i), Signature: "parse-produced-foreign-type", Detail: fmt.Sprintf("%T", v), Replay: fmt.Sprintf("%q", b)})
					}
				}
			}
			r.Count("hostile_parsed_ok", 1)
		} else {
			r.Count("hostile_parse_error", 1)
		}
		if i < 2 {
			r.Sample(map[string]interface{}{"kind": "hostile-bytes", "content": core.Short(fmt.Sprintf("%q", b), 300)})
		}
		os.Remove(p)
	})
	return nil
}
