package props

import (
	"strings"
	"fmt"
	"math/rand/v2"

	"verifrig/core"
	"verifrig/gen"
)

// C07 — references obey aliasing-xor-mutation and never outlive their referent.
// Verdict monitor with an executable loan model + reference-model monitor. Random event sequences
// (borrow shared/mut of a variable, field or array element; read/write through the reference;
// read/write of the place itself; inside straight-line code, a block, an if or a loop) are
// classified by the loan model as MUST_REJECT (a conflicting access while the reference is still
// used later), MUST_ACCEPT (no conflict even under the coarsest reading of "used later", and no
// array elements involved) or MAY. Accepted programs are run and compared with the interpreter
// (a write through a reference is visible through the referent and vice versa).

func init() { register("C07", checkC07) }

type c07Op struct {
	kind  string // borrow | copy | useR | useW | read | write
	ref   int
	src   int // copy: the reference variable the new reference is initialised from
	place int
	mut   bool
	val   int64
	// position info filled by layout
	top  int // index of the enclosing top-level item
	loop int // id of the enclosing loop (0 = none)
	nest int // id of the enclosing nested construct (0 = top level)
}

type c07Item struct {
	kind string // op | block | if | while
	op   *c07Op
	body []*c07Op
}

var c07Places = []struct {
	name string
	root string
	elem bool
}{{"x", "x", false}, {"y", "y", false}, {"p.A", "p", false}, {"p.B", "p", false}, {"a[0]", "a", true}, {"a[1]", "a", true}}

// overlap: 0 = disjoint, 1 = overlapping, 2 = implementation-defined (distinct elements of one array)
func c07Overlap(p, q int) int {
	if p == q {
		return 1
	}
	P, Q := c07Places[p], c07Places[q]
	if P.root != Q.root {
		return 0
	}
	if P.elem && Q.elem {
		return 2
	}
	return 0 // distinct fields of one struct are disjoint
}

type c07Prog struct {
	items  []c07Item
	nref   int
	copies int
}

func c07Gen(rng *rand.Rand) c07Prog {
	var pr c07Prog
	type refInfo struct {
		mut   bool
		scope int // nest id where declared (0 = top)
		place int
	}
	var refs []refInfo
	nestID := 0
	mkOp := func(scope int) *c07Op {
		// refs usable here: declared at top level or in this same nested construct
		var usable []int
		for i, rf := range refs {
			if rf.scope == 0 || rf.scope == scope {
				usable = append(usable, i)
			}
		}
		k := rng.IntN(10)
		switch {
		case k < 3 && len(refs) < 3 && len(usable) > 0 && rng.IntN(3) == 0:
			// a reference initialised from another reference variable: `let r2: &T = r1;`
			src := usable[rng.IntN(len(usable))]
			refs = append(refs, refInfo{refs[src].mut, scope, refs[src].place})
			pr.copies++
			return &c07Op{kind: "copy", ref: len(refs) - 1, src: src, place: refs[src].place, mut: refs[src].mut}
		case k < 3 && len(refs) < 3:
			mut := rng.IntN(2) == 0
			pl := rng.IntN(len(c07Places))
			refs = append(refs, refInfo{mut, scope, pl})
			return &c07Op{kind: "borrow", ref: len(refs) - 1, place: pl, mut: mut}
		case k < 6 && len(usable) > 0:
			r := usable[rng.IntN(len(usable))]
			if refs[r].mut && rng.IntN(2) == 0 {
				return &c07Op{kind: "useW", ref: r, val: int64(10 + rng.IntN(80))}
			}
			return &c07Op{kind: "useR", ref: r}
		case k < 8:
			return &c07Op{kind: "read", place: rng.IntN(len(c07Places))}
		default:
			return &c07Op{kind: "write", place: rng.IntN(len(c07Places)), val: int64(100 + rng.IntN(800))}
		}
	}
	n := 3 + rng.IntN(8)
	for i := 0; i < n; i++ {
		if rng.IntN(3) == 0 {
			nestID++
			it := c07Item{kind: []string{"block", "if", "while", "else", "else-if", "else-if-else", "match-arm", "match-default", "for"}[rng.IntN(9)]}
			nb := 1 + rng.IntN(3)
			if rng.IntN(3) == 0 {
				nb = 3 + rng.IntN(5) // long nested bodies: more statements inside than before the construct
			}
			for j := 0; j < nb; j++ {
				it.body = append(it.body, mkOp(nestID))
			}
			pr.items = append(pr.items, it)
			continue
		}
		pr.items = append(pr.items, c07Item{kind: "op", op: mkOp(0)})
	}
	pr.nref = len(refs)
	return pr
}

// classify returns "reject", "accept" or "may" plus the reason.
func (p *c07Prog) classify() (string, string) {
	// linearise
	var ops []*c07Op
	nest, loop := 0, 0
	for ti, it := range p.items {
		if it.kind == "op" {
			it.op.top, it.op.nest, it.op.loop = ti, 0, 0
			ops = append(ops, it.op)
			continue
		}
		nest++
		lp := 0
		if it.kind == "while" || it.kind == "for" {
			loop++
			lp = loop
		}
		for _, o := range it.body {
			o.top, o.nest, o.loop = ti, nest, lp
			ops = append(ops, o)
		}
	}
	type loan struct {
		place, created int
		mut            bool
		scope          int
	}
	loans := map[int]loan{}
	for i, o := range ops {
		if o.kind == "borrow" || o.kind == "copy" {
			loans[o.ref] = loan{o.place, i, o.mut, o.nest}
		}
	}
	uses := func(r int) []int {
		var u []int
		for i, o := range ops {
			if (o.kind == "useR" || o.kind == "useW") && o.ref == r || o.kind == "copy" && o.src == r {
				u = append(u, i) // initialising another reference from r reads r
			}
		}
		return u
	}
	stillUsedPrecise := func(r, i int) bool {
		for _, u := range uses(r) {
			if u > i {
				return true
			}
			if ops[i].loop != 0 && ops[u].loop == ops[i].loop && loans[r].scope != ops[i].nest {
				// a use anywhere in the same loop happens again in a later iteration — unless the
				// reference is declared inside that loop body, where every iteration has its own
				return true
			}
		}
		return false
	}
	stillUsedCoarse := func(r, i int) bool {
		// coarsest reading: the loan lasts until the end of the top-level item (or nested
		// construct) that contains its last mention, and for the whole of any loop using it
		l := loans[r]
		last := l.created
		for _, u := range uses(r) {
			if u > last {
				last = u
			}
		}
		if ops[i].top <= ops[last].top {
			return true
		}
		return stillUsedPrecise(r, i)
	}
	verdict, why := "accept", ""
	for i, o := range ops {
		var acc int
		write := false
		switch o.kind {
		case "read":
			acc = o.place
		case "write":
			acc, write = o.place, true
		case "borrow", "copy":
			// a copy is another loan of the same place with the same mutability: a shared copy is
			// compatible with its shared source, a mutable copy conflicts with a mutable source
			// that is used later
			acc, write = o.place, o.mut // a mutable borrow needs exclusive access
		default:
			continue
		}
		for r, l := range loans {
			if l.created >= i || (o.kind == "borrow" || o.kind == "copy") && o.ref == r {
				continue
			}
			if l.scope != 0 && l.scope != o.nest {
				continue // the reference's block has ended (or not begun)
			}
			ov := c07Overlap(acc, l.place)
			if ov == 0 {
				continue
			}
			if !(l.mut || write) {
				continue // shared + read is fine
			}
			desc := fmt.Sprintf("op %d (%s %s) while r%d (%s borrow of %s) ", i, o.kind, c07Places[acc].name, r, map[bool]string{true: "mutable", false: "shared"}[l.mut], c07Places[l.place].name)
			if ov == 2 {
				if stillUsedCoarse(r, i) && verdict == "accept" {
					verdict, why = "may", desc+"touches another element of the same array"
				}
				continue
			}
			if stillUsedPrecise(r, i) {
				return "reject", desc + "is still used later"
			}
			if stillUsedCoarse(r, i) && verdict == "accept" {
				verdict, why = "may", desc+"is dead by program order but alive by statement granularity"
			}
		}
	}
	if verdict == "accept" {
		for _, o := range ops {
			if o.kind == "copy" && o.mut {
				return "may", "a mutable reference is copied (the implementation may refuse the second mutable loan even when the first is dead)"
			}
		}
	}
	return verdict, why
}

func (p *c07Prog) program() *gen.Program {
	I32 := gen.I32
	lit := func(v int64) *gen.Lit { return &gen.Lit{T: I32, I: v} }
	pt := &gen.Type{K: gen.KStruct, Name: "Pair", Fields: []gen.Field{{Name: "A", T: I32}, {Name: "B", T: I32}}}
	at := &gen.Type{K: gen.KArr, N: 2, Elem: I32}
	prog := &gen.Program{Types: []*gen.Type{pt}, Features: map[string]bool{}}
	placeExpr := func(i int) gen.Expr {
		switch i {
		case 0:
			return &gen.Var{Name: "x", T: I32}
		case 1:
			return &gen.Var{Name: "y", T: I32}
		case 2:
			return &gen.FieldX{X: &gen.Var{Name: "p", T: pt}, Name: "A", T: I32}
		case 3:
			return &gen.FieldX{X: &gen.Var{Name: "p", T: pt}, Name: "B", T: I32}
		case 4:
			return &gen.Index{X: &gen.Var{Name: "a", T: at}, I: lit(0), T: I32}
		}
		return &gen.Index{X: &gen.Var{Name: "a", T: at}, I: lit(1), T: I32}
	}
	main := []gen.Stmt{
		&gen.Let{Name: "x", T: I32, Init: lit(1), Annot: true},
		&gen.Let{Name: "y", T: I32, Init: lit(2), Annot: true},
		&gen.Let{Name: "zq", T: I32, Init: lit(2), Annot: true}, // read by the branch flags only: never borrowed
		&gen.Let{Name: "p", T: pt, Init: &gen.StructLit{T: pt, Vals: []gen.Expr{lit(3), lit(4)}}, Annot: true},
		&gen.Let{Name: "a", T: at, Init: &gen.ArrLit{T: at, Elems: []gen.Expr{lit(5), lit(6)}}, Annot: true},
	}
	tn := 0
	refT := map[int]*gen.Type{}
	stmtOf := func(o *c07Op) []gen.Stmt {
		switch o.kind {
		case "borrow":
			rt := &gen.Type{K: gen.KRef, Elem: I32, Mut: o.mut}
			refT[o.ref] = rt
			return []gen.Stmt{&gen.Let{Name: fmt.Sprintf("r%d", o.ref), T: rt, Init: &gen.Borrow{Mut: o.mut, X: placeExpr(o.place)}, Annot: true}}
		case "copy":
			rt := &gen.Type{K: gen.KRef, Elem: I32, Mut: o.mut}
			refT[o.ref] = rt
			return []gen.Stmt{&gen.Let{Name: fmt.Sprintf("r%d", o.ref), T: rt, Init: &gen.Var{Name: fmt.Sprintf("r%d", o.src), T: refT[o.src]}, Annot: true}}
		case "useR":
			return []gen.Stmt{&gen.Print{X: &gen.Var{Name: fmt.Sprintf("r%d", o.ref), T: refT[o.ref]}}}
		case "useW":
			return []gen.Stmt{&gen.Assign{LHS: &gen.Var{Name: fmt.Sprintf("r%d", o.ref), T: refT[o.ref]}, Op: "=", RHS: lit(o.val)}}
		case "read":
			tn++
			n := fmt.Sprintf("t%d", tn)
			return []gen.Stmt{&gen.Let{Name: n, T: I32, Init: placeExpr(o.place), Annot: true}, &gen.Print{X: &gen.Var{Name: n, T: I32}}}
		default:
			return []gen.Stmt{&gen.Assign{LHS: placeExpr(o.place), Op: "=", RHS: lit(o.val)}}
		}
	}
	ln := 0
	for _, it := range p.items {
		if it.kind == "op" {
			main = append(main, stmtOf(it.op)...)
			continue
		}
		var body []gen.Stmt
		for _, o := range it.body {
			body = append(body, stmtOf(o)...)
		}
		switch it.kind {
		case "block":
			main = append(main, &gen.Block{Body: body})
		case "if":
			ln++
			f := fmt.Sprintf("flag%d", ln)
			main = append(main, &gen.Let{Name: f, T: gen.TBool, Init: &gen.Bin{Op: ">", L: &gen.Var{Name: "zq", T: I32}, R: lit(-5), T: gen.TBool}, Annot: true}, &gen.If{Cond: &gen.Var{Name: f, T: gen.TBool}, Then: body})
		case "else", "else-if", "else-if-else":
			// the body sits in the else / else-if / trailing else arm (the arm that runs: the
			// opaque flag is false)
			ln++
			f := fmt.Sprintf("flag%d", ln)
			fv := &gen.Var{Name: f, T: gen.TBool}
			main = append(main, &gen.Let{Name: f, T: gen.TBool, Init: &gen.Bin{Op: "<", L: &gen.Var{Name: "zq", T: I32}, R: lit(-5000), T: gen.TBool}, Annot: true})
			switch it.kind {
			case "else":
				main = append(main, &gen.If{Cond: fv, Then: []gen.Stmt{}, Else: body})
			case "else-if":
				main = append(main, &gen.If{Cond: fv, Then: []gen.Stmt{}, Else: []gen.Stmt{&gen.If{Cond: &gen.Un{Op: "!", X: fv}, Then: body}}})
			default:
				main = append(main, &gen.If{Cond: fv, Then: []gen.Stmt{}, Else: []gen.Stmt{&gen.If{Cond: fv, Then: []gen.Stmt{}, Else: body}}})
			}
		case "match-arm", "match-default":
			ln++
			sn := fmt.Sprintf("sel%d", ln)
			main = append(main, &gen.Let{Name: sn, T: I32, Init: lit(1), Annot: true})
			m := &gen.Match{Subj: &gen.Var{Name: sn, T: I32}, HasDef: true}
			if it.kind == "match-arm" {
				m.Arms = []gen.MatchArm{{Pat: lit(0), Body: []gen.Stmt{}}, {Pat: lit(1), Body: body}}
				m.Default = []gen.Stmt{}
			} else {
				m.Arms = []gen.MatchArm{{Pat: lit(0), Body: []gen.Stmt{}}}
				m.Default = body
			}
			main = append(main, m)
		case "for":
			ln++
			lo, hi := fmt.Sprintf("lo%d", ln), fmt.Sprintf("hi%d", ln)
			main = append(main, &gen.Let{Name: lo, T: I32, Init: lit(0), Annot: true}, &gen.Let{Name: hi, T: I32, Init: lit(2), Annot: true},
				&gen.ForRange{Var: fmt.Sprintf("q%d", ln), T: I32, Lo: &gen.Var{Name: lo, T: I32}, Hi: &gen.Var{Name: hi, T: I32}, Body: body})
		default:
			ln++
			cn := fmt.Sprintf("it%d", ln)
			cv := &gen.Var{Name: cn, T: I32}
			body = append([]gen.Stmt{&gen.Assign{LHS: cv, Op: "=", RHS: &gen.Bin{Op: "+", L: cv, R: lit(1), T: I32}}}, body...)
			main = append(main, &gen.Let{Name: cn, T: I32, Init: lit(0), Annot: true}, &gen.While{Cond: &gen.Bin{Op: "<", L: cv, R: lit(2), T: gen.TBool}, Body: body})
		}
	}
	// final dump of every place
	for i := range c07Places {
		tn++
		n := fmt.Sprintf("t%d", tn)
		main = append(main, &gen.Let{Name: n, T: I32, Init: placeExpr(i), Annot: true}, &gen.Print{X: &gen.Var{Name: n, T: I32}})
	}
	prog.Main = main
	return prog
}

func checkC07(c *Ctx) error {
	r := c.R
	r.Rule = "random event sequences of 3-10 events over places {x, y, p.A, p.B, a[0], a[1]} and up to 3 references: shared/mutable borrow, a reference initialised from another reference variable, read/write through the reference, read/write of the place, at top level or inside one block / if / else / else-if arm / trailing else / match arm / match default / while / for; classified by the loan model (MUST_REJECT: conflicting access while the reference is used later in program order or in the same loop; MUST_ACCEPT: no conflict even when loans last to the end of the statement containing their last mention, no array elements involved; MAY otherwise); plus same-statement cases (several borrows among the arguments of one call, also through a nested call whose by-value result carries the reference) and directed cases (a reference from a short function body used inside a nested if / else / while / match arm / block / for that declares no references, the conflicting access after 0-6 other statements of that construct) and fixed cases for returning a reference to a local / to a parameter and pinned probes for derived references. MUST_REJECT accepted and MUST_ACCEPT rejected are violations; every accepted program is run natively and compared with the interpreter. non-trivial = a distinct sequence whose verdict matched the model (and whose output matched when accepted)"
	r.Assumptions = []string{"distinct elements of one array are MAY (the implementation treats index borrows conservatively)", "a loan expires after the last mention of its reference variable"}
	n := c.N(300, 8000)
	type cse struct {
		id    string
		class string
		why   string
		prog  *gen.Program
		src   string
	}
	var cases []cse
	for i := 0; i < n; i++ {
		p := c07Gen(r.Rng(i))
		cl, why := p.classify()
		g := p.program()
		cases = append(cases, cse{id: fmt.Sprintf("gen:%d:%d", c.Env.Seed, i), class: cl, why: why, prog: g, src: g.Source()})
	}
	fixed := []cse{
		{id: "fixed:return-ref-to-local", class: "reject", src: "import \"std/io\";\n\nfn make() -> &i32 {\n    let a := 5;\n    return &a;\n}\n\nfn main() {\n    let r := make();\n    io::Println(r);\n}\n"},
		{id: "fixed:return-ref-to-local-field", class: "reject", src: "import \"std/io\";\n\ntype Pair struct { .A: i32, .B: i32 };\n\nfn make() -> &i32 {\n    let p: Pair = { .A = 1, .B = 2 };\n    return &p.B;\n}\n\nfn main() {\n    let r := make();\n    io::Println(r);\n}\n"},
		{id: "fixed:return-mut-ref-to-local", class: "reject", src: "import \"std/io\";\n\nfn make() -> &'i32 {\n    let a := 5;\n    return &'a;\n}\n\nfn main() {\n    let r := make();\n    io::Println(r);\n}\n"},
		{id: "fixed:return-ref-param", class: "accept", src: "import \"std/io\";\n\nfn pass(x: &i32) -> &i32 {\n    return x;\n}\n\nfn main() {\n    let a := 10;\n    let r := pass(&a);\n    io::Println(r);\n}\n"},
	}
	// derived references: a reference returned by a function from a reference argument keeps the
	// loan of its origin alive (regression probes of the fixed finding kf-C07-derived)
	fixed = append(fixed,
		cse{id: "probe:derived-ref-from-call", class: "reject", why: "m = idm(&'a) is a mutable reference to a; a = 5 while m is used later", src: "import \"std/io\";\n\nfn idm(x: &'i32) -> &'i32 {\n    return x;\n}\n\nfn main() {\n    let a := 10;\n    let m := idm(&'a);\n    a = 5;\n    m = 2;\n    io::Println(a);\n}\n"},
		cse{id: "probe:derived-field-ref-from-call", class: "reject", why: "m = fieldOf(&'p) refers to p.A; p.A = 7 while m is used later", src: "import \"std/io\";\n\ntype Pair struct { .A: i32, .B: i32 };\n\nfn fieldOf(p: &'Pair) -> &'i32 {\n    return &'p.A;\n}\n\nfn main() {\n    let p: Pair = { .A = 1, .B = 2 };\n    let m := fieldOf(&'p);\n    p.A = 7;\n    m = 3;\n    io::Println(p.A);\n}\n"},
	)
	// directed: a reference declared in a short function body and used inside a nested construct that
	// declares no references of its own; the conflicting access sits after 0..6 other statements of
	// that construct and before a later use of the reference. MUST_REJECT; the same program without
	// the conflicting line is the control (accept).
	for _, kind := range []string{"if", "else", "while", "match-arm", "block", "for"} {
		for nfill := 0; nfill <= 6; nfill++ {
			for _, cf := range []struct{ name, decl, conflict, use string }{
				{"write-under-mutable", "let r: &'i32 = &'x;", "x = 10;", "r = 5;"},
				{"read-under-mutable", "let r: &'i32 = &'x;", "let seen: i32 = x;", "r = 5;"},
				{"write-under-shared", "let r: &i32 = &x;", "x = 10;", "io::Println(r);"},
				{"second-mutable-borrow", "let r: &'i32 = &'x;", "let r2: &'i32 = &'x;", "r = 5;"},
			} {
				for _, withConflict := range []bool{true, false} {
					var body strings.Builder
					for k := 0; k < nfill; k++ {
						fmt.Fprintf(&body, "        let f%d: i32 = %d;\n", k, k)
					}
					if withConflict {
						body.WriteString("        " + cf.conflict + "\n")
					}
					body.WriteString("        " + cf.use + "\n")
					var open, close string
					switch kind {
					case "if":
						open, close = "    if flag {\n", "    }\n"
					case "else":
						open, close = "    if !flag {\n    } else {\n", "    }\n"
					case "while":
						open, close = "    while flag {\n", "        break;\n    }\n"
					case "match-arm":
						open, close = "    match sel {\n        1 => {\n", "        }\n        _ => {\n        }\n    }\n"
					case "for":
						open, close = "    for q in lo..hi {\n", "    }\n"
					default:
						open, close = "    {\n", "    }\n"
					}
					src := "import \"std/io\";\n\nfn work(flag: bool, sel: i32, lo: i32, hi: i32) {\n    let x: i32 = 1;\n    " + cf.decl + "\n" + open + body.String() + close + "}\n\nfn main() {\n    work(true, 1, 0, 1);\n}\n"
					cl, id := "reject", fmt.Sprintf("directed:%s:%s:after-%d-statements", kind, cf.name, nfill)
					if !withConflict {
						cl, id = "accept", id+":control"
					}
					fixed = append(fixed, cse{id: id, class: cl, why: cf.name + " inside a nested " + kind + " while the reference is used later in it", src: src})
				}
			}
		}
	}
	// several borrows inside ONE statement: the loans taken for the arguments of a call (also of a
	// nested call whose by-value result carries the reference) are alive until the statement ends
	sameStmtPrelude := "import \"std/io\";\n\ntype Pair struct { .A: i32, .B: i32 };\n\ntype Cell struct { .Slot: &'i32, .Step: i32 };\n\nfn both(a: &'i32, b: &'i32) {\n    a = 1;\n    b = 2;\n}\n\nfn shared(a: &i32, b: &i32) {\n    io::Println(a);\n    io::Println(b);\n}\n\nfn mixed(a: &'i32, b: &i32) {\n    a = 1;\n}\n\nfn take(a: &'i32, v: i32) {\n    a = v;\n}\n\nfn wrap(a: &'i32, step: i32) -> Cell {\n    return { .Slot = a, .Step = step } as Cell;\n}\n\nfn apply(c: Cell, q: &'i32) {\n    let s: &'i32 = c.Slot;\n    s = 1;\n    q = q + 5;\n}\n\nfn main() {\n    let x := 10;\n    let y := 20;\n    let p: Pair = { .A = 1, .B = 2 };\n    STMT\n    io::Println(x);\n    io::Println(y);\n    io::Println(p.A);\n    io::Println(p.B);\n}\n"
	for _, ss := range []struct{ name, stmt, class string }{
		{"two-mutable-borrows-of-one-variable", "both(&'x, &'x);", "reject"},
		{"two-shared-borrows-of-one-variable", "shared(&x, &x);", "accept"},
		{"mutable-and-shared-borrow-of-one-variable", "mixed(&'x, &x);", "reject"},
		{"mutable-borrows-of-two-variables", "both(&'x, &'y);", "accept"},
		{"mutable-borrows-of-disjoint-fields", "both(&'p.A, &'p.B);", "accept"},
		{"two-mutable-borrows-of-one-field", "both(&'p.A, &'p.A);", "reject"},
		{"mutable-borrow-and-read-of-one-variable", "take(&'x, x);", "reject"},
		{"reference-carried-by-a-nested-call-result-and-second-borrow", "apply(wrap(&'x, 5), &'x);", "reject"},
		{"reference-carried-by-a-nested-call-result-and-other-variable", "apply(wrap(&'x, 5), &'y);", "accept"},
	} {
		fixed = append(fixed, cse{id: "same-statement:" + ss.name, class: ss.class, why: ss.stmt, src: strings.Replace(sameStmtPrelude, "STMT", ss.stmt, 1)})
	}
	// open finding kf-C07-derived-indirect: references derived through a reference variable, the second
	// argument, or a closure capture
	fixed = append(fixed,
		cse{id: "probe:derived-ref-through-a-reference-variable", class: "reject", why: "n = idm(m) still refers to a; a = 5 while n is used later", src: "import \"std/io\";\n\nfn idm(x: &'i32) -> &'i32 {\n    return x;\n}\n\nfn main() {\n    let a := 10;\n    let m := idm(&'a);\n    let n := idm(m);\n    a = 5;\n    n = 2;\n    io::Println(a);\n}\n"},
		cse{id: "probe:derived-ref-from-second-argument", class: "reject", why: "m = second(&'a, &'b) refers to b; b = 5 while m is used later", src: "import \"std/io\";\n\nfn second(x: &'i32, y: &'i32) -> &'i32 {\n    return y;\n}\n\nfn main() {\n    let a := 10;\n    let b := 20;\n    let m := second(&'a, &'b);\n    b = 5;\n    m = 1;\n    io::Println(b);\n}\n"},
		cse{id: "probe:reference-carried-by-a-returned-struct", class: "reject", why: "c = wrap(&'x, 5) carries a mutable reference to x; x = 3 while c.Slot is used later", src: "import \"std/io\";\n\ntype Cell struct { .Slot: &'i32, .Step: i32 };\n\nfn wrap(a: &'i32, step: i32) -> Cell {\n    return { .Slot = a, .Step = step } as Cell;\n}\n\nfn main() {\n    let x := 10;\n    let c := wrap(&'x, 5);\n    x = 3;\n    let s: &'i32 = c.Slot;\n    s = 1;\n    io::Println(x);\n}\n"},
		cse{id: "probe:reference-captured-by-closure", class: "reject", why: "the closure holds m (a mutable reference to a) and is called after a = 5", src: "import \"std/io\";\n\nfn main() {\n    let a := 10;\n    let m: &'i32 = &'a;\n    let f := fn() -> i32 {\n        m = 7;\n        return 1;\n    };\n    a = 5;\n    let k := f();\n    io::Println(a);\n}\n"},
	)
	// write-through with implicitly widened values: accepted and compared with the interpreter
	if wt := mxWriteThrough(); wt != nil {
		fixed = append(fixed, cse{id: "fixed:write-through-widths", class: "accept", prog: wt, src: wt.Source()})
	}
	cases = append(cases, fixed...)
	tcs := make([]TC, len(cases))
	for i, cs := range cases {
		tcs[i] = TC{ID: cs.id, Files: map[string]string{"main.fer": cs.src}}
	}
	results, dirs, err := c.TypecheckAll("c07", tcs)
	if err != nil {
		return err
	}
	var toRun []int
	for i, cs := range cases {
		res := results[i]
		r.Eval()
		if res.Crash != "" {
			if cli, _ := c.ConfirmCLI(dirs[i]); cli.Crash != "" {
				r.Fail(core.Failure{Case: cs.id, Signature: "compiler-crash: " + cli.Crash, Detail: cs.src, Replay: cs.src})
			}
			continue
		}
		switch cs.class {
		case "reject":
			if res.Accepted() {
				if cli, _ := c.ConfirmCLI(dirs[i]); !cli.Accepted() {
					r.Inconclusive("in-process and CLI verdicts differ for " + cs.id)
					continue
				}
				r.Fail(core.Failure{Case: cs.id, Signature: "aliasing-violation-accepted", Detail: fmt.Sprintf("loan model: %s\n%s", cs.why, cs.src), Replay: cs.src})
				continue
			}
			if !res.CleanReject() {
				r.Fail(core.Failure{Case: cs.id, Signature: "unclean-reject", Detail: cs.src, Replay: cs.src})
				continue
			}
			r.Nontrivial(cs.src)
			r.Count("must_reject_rejected", 1)
		case "accept":
			if !res.Accepted() {
				if cli, _ := c.ConfirmCLI(dirs[i]); cli.Accepted() {
					r.Inconclusive("in-process and CLI verdicts differ for " + cs.id)
					continue
				}
				r.Fail(core.Failure{Case: cs.id, Signature: "conflict-free-program-rejected: " + core.Short(res.FirstError(), 70), Detail: fmt.Sprintf("%s\n%s", res.FirstError(), cs.src), Replay: cs.src})
				continue
			}
			r.Count("must_accept_accepted", 1)
			toRun = append(toRun, i)
		default:
			if res.Accepted() {
				r.Count("may_accepted", 1)
				toRun = append(toRun, i)
			} else {
				r.Count("may_rejected", 1)
				r.Nontrivial(cs.src)
			}
		}
	}
	// run accepted programs (a share in quick)
	stride := 1
	if c.Quick() && len(toRun) > 40 {
		stride = len(toRun)/40 + 1
	}
	var sel []int
	for k, i := range toRun {
		if (k%stride == 0 || strings.HasPrefix(cases[i].id, "fixed:")) && cases[i].prog != nil {
			sel = append(sel, i)
		} else {
			r.Nontrivial(cases[i].src)
		}
	}
	core.ParDo(len(sel), 5, func(k int) {
		i := sel[k]
		cs := cases[i]
		exp := gen.Run(cs.prog)
		if exp.Internal != "" || exp.Timeout || exp.FellOff != "" {
			r.Fail(core.Failure{Case: cs.id, Signature: "HARNESS generator/interpreter bug", Detail: fmt.Sprintf("%+v\n%s", exp, cs.src), Replay: cs.src})
			return
		}
		pr, err := buildAndRun(c, "c07run", i, cs.src, core.Native, false)
		r.Eval()
		if err != nil {
			r.Inconclusive(err.Error())
			return
		}
		if !pr.Compile.Accepted() {
			sig := "accepted-by-typecheck-but-not-built: " + core.Short(pr.Compile.FirstError(), 60)
			if pr.Compile.Crash != "" {
				sig = "compiler-crash: " + pr.Compile.Crash
			}
			r.Fail(core.Failure{Case: cs.id, Signature: sig, Detail: core.Short(core.StripANSI(pr.Compile.Proc.Stderr), 700) + "\n" + cs.src, Replay: cs.src})
			return
		}
		if sig, det := compareWithReference(exp, pr.Run); sig != "" {
			r.Fail(core.Failure{Case: cs.id, Signature: "write-through-" + sig, Detail: det + "\n" + cs.src, Replay: cs.src})
			return
		}
		r.Nontrivial(cs.src)
		r.Count("accepted_and_output_equal", 1)
		if k < 2 {
			r.Sample(map[string]interface{}{"class": cs.class, "program": cs.src, "output": exp.Lines})
		}
	})
	runProbes(c, "C07", core.Native)
	return nil
}
