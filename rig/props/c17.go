package props

import (
	"encoding/hex"
	"fmt"
	"math/rand/v2"
	"os"
	"path/filepath"
	"sort"
	"strings"

	"verifrig/core"
)

// C17 — runtime maps and dynamic arrays behave as abstract maps / lists, memory-safely.
// Reference-model monitor (Go map / slice) over the real C API behind an ASan+UBSan driver;
// thorough also replays a share of the histories under valgrind memcheck (uninstrumented build).

func init() { register("C17", checkC17) }

type drvCmd struct {
	line   string
	expect string                  // exact expected output, or
	check  func(got string) string // custom checker returning "" when fine
}

type collHistory struct {
	id   string
	cmds []drvCmd
	desc string
}

func hx(b []byte) string {
	if len(b) == 0 {
		return "-"
	}
	return hex.EncodeToString(b)
}

func randBytes(rng *rand.Rand, n int) []byte {
	b := make([]byte, n)
	for i := range b {
		b[i] = byte(rng.IntN(256))
	}
	return b
}

var strKeyPool = []string{"", "a", "b", "ab", "ba", "abc", "abd", "key", "key1", "key2", "a longer key with spaces", "\x01\x02", "zzzzzzzzzzzzzzzzzzzzzzzzzzzzzzzzzzzzzzzzzzzzzzzzzzzzzzzzzzzzzzzz", "é", "日本"}

// genMapHistory builds one history on map handle h.
func genMapHistory(rng *rand.Rand, h int, id string) collHistory {
	kinds := []string{"i32", "i64", "str", "bytes"}
	kind := kinds[rng.IntN(4)]
	ks := map[string]int{"i32": 4, "i64": 8, "str": 8}[kind]
	if kind == "bytes" {
		ks = []int{1, 2, 3, 5, 8, 12, 16, 24, 32, 40}[rng.IntN(10)]
	}
	vs := []int{0, 1, 2, 4, 8, 8, 16, 24, 32, 40, 3, 7, 13}[rng.IntN(13)]
	if rng.IntN(6) != 0 && vs == 0 {
		vs = 4
	}
	// key pool: few keys (collisions/updates) or many (resize thresholds)
	var nkeys int
	switch rng.IntN(4) {
	case 0:
		nkeys = 1 + rng.IntN(4)
	case 1:
		nkeys = 10 + rng.IntN(8) // around 12
	case 2:
		nkeys = 20 + rng.IntN(40) // 24, 48
	default:
		nkeys = 90 + rng.IntN(120) // 96, 192
	}
	keyset := map[string]bool{}
	var keys [][]byte
	for len(keys) < nkeys {
		var k []byte
		switch kind {
		case "str":
			if rng.IntN(3) == 0 && len(keys) < len(strKeyPool) {
				k = []byte(strKeyPool[rng.IntN(len(strKeyPool))])
			} else {
				n := rng.IntN(12)
				k = make([]byte, n)
				for i := range k {
					k[i] = byte('a' + rng.IntN(4)) // small alphabet: shared prefixes; never NUL
				}
			}
		case "i32", "i64":
			k = make([]byte, ks)
			switch rng.IntN(4) {
			case 0: // small ints
				k[0] = byte(rng.IntN(40))
			case 1: // differ only in a high byte
				k[ks-1] = byte(rng.IntN(256))
			default:
				k = randBytes(rng, ks)
			}
		default:
			k = randBytes(rng, ks)
			if rng.IntN(3) == 0 {
				for i := range k {
					k[i] = 0
				}
				k[rng.IntN(ks)] = byte(rng.IntN(3))
			}
		}
		if kind == "str" && len(k) == 0 && rng.IntN(3) != 0 {
			continue
		}
		if !keyset[string(k)] {
			keyset[string(k)] = true
			keys = append(keys, k)
		}
	}
	keyHex := func(k []byte) string {
		if len(k) == 0 {
			return "-"
		}
		return hex.EncodeToString(k)
	}
	model := map[string][]byte{}
	var cmds []drvCmd
	hs := fmt.Sprint(h)
	nops := 1 + rng.IntN(60)
	if nkeys > 20 {
		nops = nkeys + rng.IntN(2*nkeys)
	}
	if nops > 400 {
		nops = 400
	}
	// construction: new or from_pairs
	if rng.IntN(3) == 0 {
		cnt := rng.IntN(len(keys) + 1)
		if cnt > 60 {
			cnt = 60
		}
		var sb strings.Builder
		fmt.Fprintf(&sb, "mpairs %s %s %d %d %d", hs, kind, ks, vs, cnt)
		for i := 0; i < cnt; i++ {
			k := keys[rng.IntN(len(keys))] // duplicates allowed: last wins
			v := randBytes(rng, vs)
			fmt.Fprintf(&sb, " %s %s", keyHex(k), hx(v))
			model[string(k)] = v
		}
		cmds = append(cmds, drvCmd{line: sb.String(), expect: "ok"})
	} else {
		cmds = append(cmds, drvCmd{line: fmt.Sprintf("mnew %s %s %d %d", hs, kind, ks, vs), expect: "ok"})
	}
	iterCheck := func() drvCmd {
		want := map[string]string{}
		for k, v := range model {
			want[keyHex([]byte(k))] = hx(v)
		}
		return drvCmd{line: "miter " + hs, check: func(got string) string {
			if len(want) == 0 {
				if got != "empty" {
					return "iteration of an empty map visited something: " + core.Short(got, 200)
				}
				return ""
			}
			seen := map[string]int{}
			for _, kv := range strings.Fields(got) {
				i := strings.LastIndex(kv, "=")
				if i < 0 {
					return "malformed iteration output " + core.Short(got, 200)
				}
				k, v := kv[:i], kv[i+1:]
				seen[k]++
				if seen[k] > 1 {
					return fmt.Sprintf("iteration visited key %s %d times", k, seen[k])
				}
				if w, ok := want[k]; !ok {
					return "iteration visited a key that was never stored: " + k
				} else if w != v {
					return fmt.Sprintf("iteration saw %s=%s, model has %s", k, v, w)
				}
			}
			if len(seen) != len(want) {
				var miss []string
				for k := range want {
					if seen[k] == 0 {
						miss = append(miss, k)
					}
				}
				sort.Strings(miss)
				return fmt.Sprintf("iteration visited %d of %d entries; missing %v", len(seen), len(want), miss[:min(4, len(miss))])
			}
			return ""
		}}
	}
	for i := 0; i < nops; i++ {
		k := keys[rng.IntN(len(keys))]
		switch op := rng.IntN(12); {
		case op < 5:
			v := randBytes(rng, vs)
			model[string(k)] = v
			cmds = append(cmds, drvCmd{line: fmt.Sprintf("mset %s %s %s", hs, keyHex(k), hx(v)), expect: "1"})
		case op < 7:
			exp := "nil"
			if v, ok := model[string(k)]; ok {
				exp = hx(v)
			}
			cmds = append(cmds, drvCmd{line: fmt.Sprintf("mget %s %s", hs, keyHex(k)), expect: exp})
		case op < 8:
			_, ok := model[string(k)]
			cmds = append(cmds, drvCmd{line: fmt.Sprintf("mhas %s %s", hs, keyHex(k)), expect: b2s(ok)})
		case op < 10:
			exp := "none"
			if v, ok := model[string(k)]; ok {
				exp = "some " + hx(v)
			}
			cmds = append(cmds, drvCmd{line: fmt.Sprintf("mopt %s %s", hs, keyHex(k)), expect: exp})
		case op < 11:
			cmds = append(cmds, drvCmd{line: "msize " + hs, expect: fmt.Sprintf("%d %d", len(model), len(model))})
		default:
			cmds = append(cmds, iterCheck())
		}
	}
	// final full audit
	cmds = append(cmds, drvCmd{line: "msize " + hs, expect: fmt.Sprintf("%d %d", len(model), len(model))})
	cmds = append(cmds, iterCheck())
	for _, k := range keys {
		exp := "nil"
		if v, ok := model[string(k)]; ok {
			exp = hx(v)
		}
		cmds = append(cmds, drvCmd{line: fmt.Sprintf("mget %s %s", hs, keyHex(k)), expect: exp})
	}
	cmds = append(cmds, drvCmd{line: "mdestroy " + hs, expect: "ok"})
	return collHistory{id: id, cmds: cmds, desc: fmt.Sprintf("map kind=%s ks=%d vs=%d keys=%d ops=%d", kind, ks, vs, nkeys, len(cmds))}
}

func genArrayHistory(rng *rand.Rand, h int, id string) collHistory {
	es := []int{1, 2, 4, 8, 8, 16, 24, 32, 40, 3, 5, 12}[rng.IntN(12)]
	capa := []int{0, 1, 3, 4, 5, 16, -3}[rng.IntN(7)]
	hs := fmt.Sprint(h)
	var model [][]byte
	cmds := []drvCmd{{line: fmt.Sprintf("anew %s %d %d", hs, es, capa), expect: "ok"}}
	nops := 1 + rng.IntN(120)
	pickIdx := func() int {
		n := len(model)
		c := []int{-n - 1, -n, -1, 0, n - 1, n, n + 1, 1 << 30, -(1 << 31), 1<<31 - 1, n / 2}
		if rng.IntN(3) == 0 && n > 0 {
			return rng.IntN(n)
		}
		return c[rng.IntN(len(c))]
	}
	for i := 0; i < nops; i++ {
		switch op := rng.IntN(10); {
		case op < 5:
			e := randBytes(rng, es)
			model = append(model, e)
			name := "aappend"
			if rng.IntN(3) == 0 {
				name = "aappend2" // through runtime/libs/append.c
			}
			cmds = append(cmds, drvCmd{line: fmt.Sprintf("%s %s %s", name, hs, hx(e)), expect: "1"})
		case op < 7:
			idx := pickIdx()
			exp := "nil" // the raw API refuses negative and out-of-range indices
			if idx >= 0 && idx < len(model) {
				exp = hx(model[idx])
			}
			cmds = append(cmds, drvCmd{line: fmt.Sprintf("aget %s %d", hs, idx), expect: exp})
		case op < 9:
			idx := pickIdx()
			e := randBytes(rng, es)
			exp := "0"
			if idx >= 0 && idx < len(model) {
				exp = "1"
				model[idx] = e
			}
			cmds = append(cmds, drvCmd{line: fmt.Sprintf("aset %s %d %s", hs, idx, hx(e)), expect: exp})
		default:
			cmds = append(cmds, drvCmd{line: "alen " + hs, expect: fmt.Sprintf("%d %d", len(model), len(model))})
			cmds = append(cmds, drvCmd{line: "acap " + hs, expect: "1"})
		}
	}
	cmds = append(cmds, drvCmd{line: "alen " + hs, expect: fmt.Sprintf("%d %d", len(model), len(model))})
	for i, e := range model {
		cmds = append(cmds, drvCmd{line: fmt.Sprintf("aget %s %d", hs, i), expect: hx(e)})
	}
	cmds = append(cmds, drvCmd{line: "adestroy " + hs, expect: "ok"})
	return collHistory{id: id, cmds: cmds, desc: fmt.Sprintf("array elem=%d cap0=%d ops=%d final_len=%d", es, capa, len(cmds), len(model))}
}

func genUnwrapHistory(rng *rand.Rand, id string) collHistory {
	var cmds []drvCmd
	for i := 0; i < 8; i++ {
		vs := []int{1, 2, 4, 8, 16, 32, 3, 24, 40}[rng.IntN(9)]
		val := randBytes(rng, vs)
		flag := byte(rng.IntN(2))
		opt := append(append([]byte{}, val...), flag)
		def := randBytes(rng, vs)
		useDef := rng.IntN(3) != 0
		exp := hx(val)
		if flag == 0 {
			if useDef {
				exp = hx(def)
			} else {
				exp = hx(make([]byte, vs))
			}
		}
		d := "nil"
		if useDef {
			d = hx(def)
		}
		cmds = append(cmds, drvCmd{line: fmt.Sprintf("unwrap %d %s %s", vs, hx(opt), d), expect: exp})
	}
	return collHistory{id: id, cmds: cmds, desc: "optional_unwrap_or x8"}
}

// runCollBatch runs histories through one driver process and checks each output line.
func runCollBatch(c *Ctx, argv []string, batch int, hist []collHistory, tag string) {
	r := c.R
	dir := c.Env.CaseDir("c17")
	var sb strings.Builder
	type ref struct{ h, i int }
	var refs []ref
	for hi, h := range hist {
		for ci, cm := range h.cmds {
			sb.WriteString(cm.line)
			sb.WriteByte('\n')
			refs = append(refs, ref{hi, ci})
		}
	}
	in := filepath.Join(dir, fmt.Sprintf("%s-batch%d.in", tag, batch))
	os.WriteFile(in, []byte(sb.String()), 0o644)
	p := core.RunProc(core.RunOpts{Dir: dir, Stdin: sb.String(), CPUSecs: 900, MaxOut: 512 << 20,
		Env: []string{"ASAN_OPTIONS=abort_on_error=0:halt_on_error=1:detect_leaks=1:exitcode=99", "UBSAN_OPTIONS=halt_on_error=1:print_stacktrace=1:exitcode=98"}}, argv...)
	lines := completeLines(p.Stdout)
	failed := map[int]bool{}
	for li, rf := range refs {
		h := hist[rf.h]
		cm := h.cmds[rf.i]
		if li >= len(lines) {
			rep := firstSanLine(p.Stderr)
			if tag == "valgrind" {
				rep = firstValgrindLine(p.Stderr)
			}
			r.Fail(core.Failure{Case: h.id, Signature: "driver-died: " + rep, Detail: fmt.Sprintf("history: %s\ncommand #%d: %s\nexit=%d signal=%d\nstderr:\n%s", h.desc, rf.i, core.Short(cm.line, 300), p.Exit, p.Signal, core.Short(p.Stderr, 3000)), Replay: histLines(h, rf.i)})
			failed[rf.h] = true
			break
		}
		r.Eval()
		got := lines[li]
		why := ""
		if cm.check != nil {
			why = cm.check(got)
		} else if got != cm.expect {
			why = fmt.Sprintf("expected %q got %q", core.Short(cm.expect, 200), core.Short(got, 200))
		}
		if why != "" && !failed[rf.h] {
			failed[rf.h] = true
			op := strings.Fields(cm.line)[0]
			r.Fail(core.Failure{Case: h.id, Signature: "model-mismatch " + op, Detail: fmt.Sprintf("history: %s\ncommand #%d: %s\n%s", h.desc, rf.i, core.Short(cm.line, 300), why), Replay: histLines(h, rf.i)})
		}
	}
	if len(lines) >= len(refs) {
		if p.Exit != 0 || p.Signal != 0 {
			rep := firstSanLine(p.Stderr)
			if tag == "valgrind" {
				rep = firstValgrindLine(p.Stderr)
			}
			r.Fail(core.Failure{Case: fmt.Sprintf("%s:batch%d:exit", tag, batch), Signature: "driver-exit: " + rep, Detail: fmt.Sprintf("exit=%d signal=%d\n%s", p.Exit, p.Signal, core.Short(p.Stderr, 3000))})
		}
		for hi, h := range hist {
			if !failed[hi] {
				r.Nontrivial(tag + histLines(h, len(h.cmds)-1))
				r.Count("histories_ok."+tag, 1)
			}
		}
	}
	os.Remove(in)
}

func histLines(h collHistory, upto int) string {
	var sb strings.Builder
	for i := 0; i <= upto && i < len(h.cmds); i++ {
		sb.WriteString(core.Short(h.cmds[i].line, 400))
		sb.WriteByte('\n')
	}
	return core.Short(sb.String(), 20000)
}

func firstValgrindLine(stderr string) string {
	for _, l := range strings.Split(stderr, "\n") {
		if strings.Contains(l, "Invalid ") || strings.Contains(l, "uninitialised") || strings.Contains(l, "definitely lost") || strings.Contains(l, "Mismatched") || strings.Contains(l, "Process terminating") {
			if i := strings.Index(l, "== "); i >= 0 {
				l = l[i+3:]
			}
			return core.Short(strings.TrimSpace(l), 120)
		}
	}
	return "no valgrind report"
}

func checkC17(c *Ctx) error {
	r := c.R
	r.Rule = "operation histories (maps: new/from_pairs/set/get/has/get_optional_out/size/iterate/destroy for i32, i64, string and byte-blob keys, few-key and threshold-crossing key pools, value sizes 0-40; arrays: new/append/get/set/len/cap/destroy with boundary indices; optional_unwrap_or) run through the real C runtime behind ASan+UBSan and compared line by line with a Go map/slice model; non-trivial = a distinct history whose every result matched and that finished without a sanitizer report"
	r.Assumptions = []string{"string keys are kept alive by the driver (the map stores the pointer)", "iteration uses the documented protocol (begin's result respected)", "raw array API refuses negative indices (normalisation happens in generated code, covered by C08)"}
	src := []string{"core/map.c", "core/array.c", "core/optional.c", "libs/len.c", "libs/append.c", "core/string_runtime.c"}
	driver, err := c.Env.CDriver("coll_driver", true, src...)
	if err != nil {
		return err
	}
	nHist := c.N(320, 32000)
	nb := 16
	if !c.Quick() {
		nb = 64
	}
	mkBatch := func(bi int, label string, n int) []collHistory {
		rng := core.CaseRng(c.Env.Seed, label, bi)
		var hist []collHistory
		for k := 0; k < n; k++ {
			id := fmt.Sprintf("gen:%d:%s:%d:%d", c.Env.Seed, label, bi, k)
			switch x := rng.IntN(10); {
			case x < 6:
				hist = append(hist, genMapHistory(rng, k%64, id))
			case x < 9:
				hist = append(hist, genArrayHistory(rng, k%64, id))
			default:
				hist = append(hist, genUnwrapHistory(rng, id))
			}
		}
		return hist
	}
	core.ParDo(nb, 0, func(bi int) {
		hist := mkBatch(bi, "asan", nHist/nb)
		if bi == 0 {
			for k := 0; k < 3 && k < len(hist); k++ {
				r.Sample(map[string]string{"history": hist[k].desc, "first_commands": core.Short(histLines(hist[k], 6), 500)})
			}
		}
		runCollBatch(c, []string{driver}, bi, hist, "asan")
	})
	if !c.Quick() {
		plain, err := c.Env.CDriver("coll_driver", false, src...)
		if err != nil {
			return err
		}
		core.ParDo(16, 0, func(bi int) {
			hist := mkBatch(bi, "valgrind", 125)
			runCollBatch(c, []string{"valgrind", "-q", "--error-exitcode=97", "--leak-check=full", "--errors-for-leak-kinds=definite", plain}, bi, hist, "valgrind")
		})
	}
	return nil
}
