package props

import (
	"fmt"
	"math"
	"math/rand/v2"
	"strconv"
	"strings"

	"verifrig/core"
	"verifrig/gen"
)

// C02 — the QBE (native) and WebAssembly back ends agree.
// Relational monitor: the same program is compiled for both targets by the real compiler; the
// native executable and the .wasm module (run under node with the shipped runtime.js) must print
// the same sequence of values and terminate the same way. Floats are compared as numbers.

func init() { register("C02", checkC02) }

// floatProgram builds a small f32/f64 program; tol[i] is the relative tolerance of printed line i
// (0 = exact text).
func floatProgram(rng *rand.Rand) (string, []float64) {
	var sb strings.Builder
	var tol []float64
	sb.WriteString("import \"std/io\";\n\nfn scale(v: f64, k: f64) -> f64 {\n    return v * k + 0.5;\n}\n\nfn main() {\n")
	type fv struct {
		name string
		f32  bool
	}
	var vars []fv
	lit := func() string {
		m := []string{"0.5", "1.5", "2.25", "3.0", "0.1", "7.75", "100.0", "0.001", "1234.5", "2.0", "9.99"}[rng.IntN(11)]
		if rng.IntN(4) == 0 {
			return "-" + m
		}
		return m
	}
	n := 0
	newVar := func(f32 bool, init string) string {
		n++
		name := fmt.Sprintf("v%d", n)
		t := "f64"
		if f32 {
			t = "f32"
		}
		fmt.Fprintf(&sb, "    let %s: %s = %s;\n", name, t, init)
		vars = append(vars, fv{name, f32})
		return name
	}
	pick := func(f32 bool) string {
		var c []string
		for _, v := range vars {
			if v.f32 == f32 {
				c = append(c, v.name)
			}
		}
		if len(c) == 0 {
			return ""
		}
		return c[rng.IntN(len(c))]
	}
	var expr func(f32 bool, d int) string
	expr = func(f32 bool, d int) string {
		a := pick(f32)
		if a == "" {
			return lit()
		}
		if d <= 0 {
			return a
		}
		op := []string{"+", "-", "*", "/"}[rng.IntN(4)]
		r := lit()
		if op != "/" && rng.IntN(2) == 0 {
			if b := pick(f32); b != "" {
				r = b
			}
		}
		if strings.HasPrefix(r, "-") {
			r = "(" + r + ")"
		}
		l := a
		if d > 1 && rng.IntN(2) == 0 {
			l = "(" + expr(f32, d-1) + ")"
		}
		return l + " " + op + " " + r
	}
	newVar(false, lit())
	newVar(true, lit())
	steps := 6 + rng.IntN(8)
	for i := 0; i < steps; i++ {
		switch rng.IntN(8) {
		case 0, 1, 2:
			f32 := rng.IntN(3) == 0
			name := newVar(f32, expr(f32, 2))
			fmt.Fprintf(&sb, "    io::Println(%s);\n", name)
			if f32 {
				tol = append(tol, 1e-5)
			} else {
				tol = append(tol, 1e-12)
			}
		case 3: // comparison
			f32 := rng.IntN(3) == 0
			a := pick(f32)
			n++
			fmt.Fprintf(&sb, "    let c%d: bool = %s %s %s;\n    io::Println(c%d);\n", n, a, []string{"<", ">", "<=", ">="}[rng.IntN(4)], lit(), n)
			tol = append(tol, 0)
		case 4: // int -> float
			n++
			iv := rng.IntN(2000) - 1000
			fmt.Fprintf(&sb, "    let i%d: i32 = %d;\n", n, iv)
			name := newVar(false, fmt.Sprintf("(i%d as f64) / 4.0", n))
			fmt.Fprintf(&sb, "    io::Println(%s);\n", name)
			tol = append(tol, 1e-12)
		case 5: // f32 -> f64 widening by cast
			if a := pick(true); a != "" {
				name := newVar(false, fmt.Sprintf("(%s as f64) * 2.0", a))
				fmt.Fprintf(&sb, "    io::Println(%s);\n", name)
				tol = append(tol, 1e-5)
			}
		case 6: // call
			a := pick(false)
			name := newVar(false, fmt.Sprintf("scale(%s, %s)", a, lit()))
			fmt.Fprintf(&sb, "    io::Println(%s);\n", name)
			tol = append(tol, 1e-12)
		default: // branch on a float comparison
			a := pick(false)
			fmt.Fprintf(&sb, "    if %s > %s {\n        io::Println(1);\n    } else {\n        io::Println(2);\n    }\n", a, lit())
			tol = append(tol, 0)
		}
	}
	sb.WriteString("}\n")
	return sb.String(), tol
}

func sameNumber(a, b string, tol float64) bool {
	if a == b {
		return true
	}
	if tol == 0 {
		return false
	}
	fa, ea := strconv.ParseFloat(a, 64)
	fb, eb := strconv.ParseFloat(b, 64)
	if ea != nil || eb != nil {
		return false
	}
	if math.IsNaN(fa) && math.IsNaN(fb) || math.IsInf(fa, 0) && fa == fb {
		return true
	}
	return math.Abs(fa-fb) <= tol*math.Max(1, math.Max(math.Abs(fa), math.Abs(fb)))
}

func sameTermination(n, w core.RunResult) (bool, string) {
	nk, wk := n.Kind, w.Kind
	abn := func(k core.RunKind) bool { return k == core.RunPanic || k == core.RunTrap }
	if nk == core.RunExit0 && wk == core.RunExit0 {
		return true, ""
	}
	if abn(nk) && abn(wk) {
		if nk == core.RunPanic && wk == core.RunPanic && n.PanicMsg != "" && !strings.Contains(w.PanicMsg, n.PanicMsg) {
			return false, fmt.Sprintf("panic messages differ: native %q, wasm %q", n.PanicMsg, w.PanicMsg)
		}
		return true, ""
	}
	return false, fmt.Sprintf("native %s (%s exit=%d signal=%d), wasm %s (%s)", nk, n.PanicMsg, n.Proc.Exit, n.Proc.Signal, wk, w.PanicMsg)
}

func checkC02(c *Ctx) error {
	r := c.R
	r.Rule = "programs accepted by both targets: (a) generated integer/struct/array/enum/loop programs of the C01 generator restricted to what the wasm back end supports (no closures, results, strings), (b) generated f32/f64 arithmetic programs (casts, comparisons, calls, branches), (c) pinned probes and the deterministic matrix programs, (d) composite-value programs (structs, nested structs, fixed arrays of small structs: leaf writes, copies, whole-aggregate assignments, by-value calls); each compiled by the real compiler for native and for wasm and both artifacts executed; non-trivial = a distinct program accepted by both targets whose outputs (>=1 line) and termination agreed"
	r.Assumptions = []string{"float lines are compared numerically: relative 1e-12 for f64, 1e-5 for values printed from f32 (native prints %g, JS prints shortest round-trip)", "programs rejected by either target are 'not in scope' and only counted", "native panic (abort) corresponds to a JS Error or a wasm trap"}
	nInt := c.N(40, 900)
	nFlt := c.N(20, 400)
	gates := gatedFeatures(c)
	type job struct {
		id  string
		src string
		tol []float64
	}
	var jobs []job
	for i := 0; i < nInt; i++ {
		rng := r.Rng(i)
		p := gen.Generate(rng, &gen.Config{Off: gates, Wasm: true, MainLen: 8 + rng.IntN(12)})
		jobs = append(jobs, job{id: fmt.Sprintf("gen:%d:int:%d", c.Env.Seed, i), src: p.Source()})
	}
	for i := 0; i < nFlt; i++ {
		src, tol := floatProgram(core.CaseRng(c.Env.Seed, "C02-float", i))
		jobs = append(jobs, job{id: fmt.Sprintf("gen:%d:float:%d", c.Env.Seed, i), src: src, tol: tol})
	}
	// (d) composite-value programs (C18's generator, wasm profile): sentinel-filled structs, nested
	// structs and fixed arrays (incl. arrays of 2-7 byte structs) with leaf writes, copies,
	// whole-aggregate assignments and by-value calls — pointer size 8 against pointer size 4
	nAgg := c.N(16, 300)
	for i := 0; i < nAgg; i++ {
		src, _ := c18Program(core.CaseRng(c.Env.Seed, "C02-composite", i), true)
		jobs = append(jobs, job{id: fmt.Sprintf("gen:%d:composite:%d", c.Env.Seed, i), src: src})
	}
	pins := []job{
		{id: "probe:ref-read-arith", src: "import \"std/io\";\n\nfn rd(r: &i32) -> i32 {\n    return r + 1;\n}\n\nfn main() {\n    let x: i32 = 1;\n    let y := rd(&x);\n    io::Println(y);\n}\n"},
		{id: "probe:u32-wrap-div", src: "import \"std/io\";\n\nfn main() {\n    let e: u32 = 4294967295;\n    let f := (e + 1) / 2;\n    io::Println(f);\n}\n"},
		{id: "probe:heap-growth", src: "import \"std/io\";\n\nfn main() {\n    let n: i64 = 0;\n    let s: i64 = 0;\n    while n < 6000 {\n        n = n + 1;\n        s = s + n;\n        if n % 100 == 0 {\n            io::Println(s);\n        }\n    }\n}\n"},
		{id: "probe:hex-literal", src: "import \"std/io\";\n\nfn main() {\n    let a: i32 = 0xFF;\n    let b: u8 = 0b1010;\n    io::Println(a);\n    io::Println(b);\n}\n"},
		{id: "probe:dyn-oob-panic", src: "import \"std/io\";\n\nfn idx() -> i32 {\n    return 5;\n}\n\nfn main() {\n    let d := [1, 2, 3];\n    io::Println(d[1]);\n    let k := idx();\n    io::Println(d[k]);\n    io::Println(9);\n}\n"},
	}
	// allocation-heavy run: every call frame is carved out of the linear memory, so 20000 calls
	// cross several 64 KiB pages at arbitrary offsets
	pins = append(pins, job{id: "probe:heap-growth-calls", src: "import \"std/io\";\n\nfn mix(x: i64, k: i64) -> i64 {\n    let a: i64 = x * 3;\n    let b: i64 = a + k;\n    let c: i64 = b % 1000003;\n    return c;\n}\n\nfn run(n: i64) -> i64 {\n    let i: i64 = 0;\n    let s: i64 = 7;\n    while i < n {\n        s = mix(s, i);\n        i = i + 1;\n    }\n    return s;\n}\n\nfn main() {\n    io::Println(run(10));\n    io::Println(run(3000));\n    io::Println(run(20000));\n    io::Println(run(50000));\n}\n"})
	// integer -> float conversions of every integer type at its boundary values
	{
		var b strings.Builder
		b.WriteString("import \"std/io\";\n\n")
		for _, t := range gen.IntTypes {
			fmt.Fprintf(&b, "fn id_%s(x: %s) -> %s {\n    return x;\n}\n\n", t, t, t)
		}
		b.WriteString("fn main() {\n")
		n := 0
		var tol []float64
		for _, t := range gen.IntTypes {
			for _, v := range mxBoundary(t) {
				n++
				fmt.Fprintf(&b, "    let v%d: %s = id_%s(%s);\n", n, t, t, gen.ExprStr(mxLit(t, v)))
				fmt.Fprintf(&b, "    let d%d: f64 = v%d as f64;\n    io::Println(d%d);\n", n, n, n)
				fmt.Fprintf(&b, "    let e%d: f32 = v%d as f32;\n    io::Println(e%d);\n", n, n, n)
				tol = append(tol, 1e-12, 1e-5)
			}
		}
		b.WriteString("}\n")
		pins = append(pins, job{id: "matrix:int-to-float", src: b.String(), tol: tol})
	}
	for _, mp := range matrixPrograms() {
		if mp.wasmOK {
			pins = append(pins, job{id: "matrix:" + mp.name, src: mp.p.Source()})
		}
	}
	jobs = append(pins, jobs...)
	core.ParDo(len(jobs), 5, func(i int) {
		j := jobs[i]
		nat, err := buildAndRun(c, "c02n", i, j.src, core.Native, false)
		if err != nil {
			r.Inconclusive(err.Error())
			return
		}
		wsm, err := buildAndRun(c, "c02w", i, j.src, core.Wasm, false)
		if err != nil {
			r.Inconclusive(err.Error())
			return
		}
		r.Eval()
		for _, x := range []progRun{nat, wsm} {
			if x.Compile.Crash != "" {
				// a crashing compilation is not "accepted by both back ends": out of C02's scope
				// (crashes are C13's and C01's business); counted so that the loss is visible
				r.Count("not_in_scope(compiler_crash: "+core.Short(x.Compile.Crash, 60)+")", 1)
				return
			}
		}
		if !nat.Compile.Accepted() || !wsm.Compile.Accepted() {
			r.Count("not_in_scope(rejected_by_a_target)", 1)
			if !wsm.Compile.Accepted() {
				r.Count("rejected_by_wasm: "+core.Short(wsm.Compile.FirstError(), 50), 1)
			}
			if !nat.Compile.Accepted() {
				r.Count("rejected_by_native: "+core.Short(nat.Compile.FirstError(), 50), 1)
			}
			return
		}
		for _, x := range []core.RunResult{nat.Run, wsm.Run} {
			if x.Kind == core.RunTimeout || x.Kind == core.RunError {
				r.Inconclusive(fmt.Sprintf("%s: run %s %s", j.id, x.Kind, x.PanicMsg))
				return
			}
		}
		nl, wl := nat.Run.Lines, wsm.Run.Lines
		m := len(nl)
		if len(wl) < m {
			m = len(wl)
		}
		for k := 0; k < m; k++ {
			tol := 0.0
			if j.tol != nil && k < len(j.tol) {
				tol = j.tol[k]
			}
			if !sameNumber(nl[k], wl[k], tol) {
				r.Fail(core.Failure{Case: j.id, Signature: "outputs-differ", Detail: fmt.Sprintf("line %d: native %q, wasm %q\nnative: %v\nwasm:   %v\n%s", k+1, nl[k], wl[k], clip(nl, k), clip(wl, k), j.src), Replay: j.src})
				return
			}
		}
		if len(nl) != len(wl) {
			r.Fail(core.Failure{Case: j.id, Signature: "output-lengths-differ", Detail: fmt.Sprintf("native printed %d lines (%s), wasm %d (%s %s)\nnative tail %v\nwasm tail %v\n%s", len(nl), nat.Run.Kind, len(wl), wsm.Run.Kind, wsm.Run.PanicMsg, clip(nl, m), clip(wl, m), j.src), Replay: j.src})
			return
		}
		if ok, why := sameTermination(nat.Run, wsm.Run); !ok {
			r.Fail(core.Failure{Case: j.id, Signature: "terminations-differ", Detail: why + "\n" + j.src, Replay: j.src})
			return
		}
		if len(nl) > 0 {
			r.Nontrivial(j.src)
		}
		r.Count("lines_compared", len(nl))
		r.Count("agreeing_programs", 1)
		if strings.Contains(j.id, ":float:") && i%7 == 0 || i == len(pins) {
			r.Sample(map[string]interface{}{"id": j.id, "program": j.src, "native": nl, "wasm": wl})
		}
	})
	return nil
}
