package props

import (
	"fmt"
	"math/rand/v2"
	"path/filepath"
	"sort"
	"strings"
	"unicode/utf8"

	"compiler/verifhook"

	"verifrig/core"
	"verifrig/gen"
)

// C19 — layout of the source text does not change meaning; diagnostics follow the text.
// Relational monitor with an independent position model. P = base program (accepted, or rejected
// for a type error, or rejected for a parse error); P' = P with trivia inserted in 1..40 token
// gaps (token boundaries from the compiler's own lexer through the verif hook). Observed at the
// compiler boundary: verdict, exit status, the multiset of diagnostics with their line:column,
// and - for accepted programs - what the produced executable prints.

func init() { register("C19", checkC19) }

// posModel is the rig's own line/column model: line = 1 + newlines before the offset,
// column = 1 + widths of the runes since the last newline (tab = 4, everything else = 1).
func posModel(src string, off int) (line, col int) {
	line, col = 1, 1
	for i, r := range src {
		if i >= off {
			break
		}
		switch r {
		case '\n':
			line++
			col = 1
		case '\t':
			col += 4
		default:
			col++
		}
	}
	return
}

// offsetOf inverts posModel: byte offset of (line, col) in src, or -1.
func offsetOf(src string, line, col int) int {
	l, c := 1, 1
	for i, r := range src {
		if l == line && c == col {
			return i
		}
		if l > line {
			return -1
		}
		switch r {
		case '\n':
			l++
			c = 1
		case '\t':
			c += 4
		default:
			c++
		}
	}
	if l == line && c == col {
		return len(src)
	}
	return -1
}

var c19CommentTexts = []string{
	"c", "note", " TODO: later ", "let x = 1;", "fn main() { }", "\"unterminated", "'", "/* nested open", "// twice",
	"@extern", " @extern ", "éß 日本語 ✓", "größe", "ключ", "✓", "naïve café", "😀 emoji", "}", "{", ";", "return 1", "import \"std/io\"", "*", "/", "* /", "-1", "",
}

// c19Trivia builds one trivia string. Tabs appear only as the last character of a whitespace
// lexeme (Position.Advance deliberately does not count the character after a tab inside one
// lexeme; TestPositionAdvance pins that), comments contain no tabs, a line comment is always
// followed by a newline, block comment text never contains "*/". noExtern: the gap precedes `fn`.
func c19Trivia(rng *rand.Rand, noExtern bool) (string, []string) {
	var b strings.Builder
	var kinds []string
	n := 1 + rng.IntN(4)
	endsWithTab := false
	text := func() string {
		for {
			t := c19CommentTexts[rng.IntN(len(c19CommentTexts))]
			if noExtern && strings.Contains(t, "@extern") {
				continue
			}
			return t
		}
	}
	for i := 0; i < n; i++ {
		k := rng.IntN(6)
		if endsWithTab && k < 3 {
			k = 3 + rng.IntN(3) // a whitespace piece would merge with the tab-terminated run
		}
		switch k {
		case 0:
			b.WriteString(strings.Repeat(" ", 1+rng.IntN(3)))
			kinds = append(kinds, "spaces")
			endsWithTab = false
		case 1:
			b.WriteString(strings.Repeat(" ", rng.IntN(3)) + "\t")
			kinds = append(kinds, "tab")
			endsWithTab = true
		case 2:
			b.WriteString([]string{"\n", "\n\n", "\r\n", " \n  "}[rng.IntN(4)])
			kinds = append(kinds, "newline")
			endsWithTab = false
		case 3:
			t := strings.ReplaceAll(text(), "*/", "* /")
			b.WriteString("/*" + t + "*/")
			kinds = append(kinds, "block-comment")
			endsWithTab = false
		case 4:
			t := strings.ReplaceAll(text(), "*/", "* /")
			b.WriteString("/* " + t + "\n   " + text2(rng) + "\n*/")
			kinds = append(kinds, "multiline-block-comment")
			endsWithTab = false
		case 5:
			b.WriteString("//" + text() + []string{"\n", "\r\n"}[rng.IntN(2)])
			kinds = append(kinds, "line-comment")
			endsWithTab = false
		}
	}
	return b.String(), kinds
}

func text2(rng *rand.Rand) string {
	return []string{"second line", "let y := 2;", "}", "//", "\"", ""}[rng.IntN(6)]
}

type c19Base struct {
	id, class string
	src       string
	toks      []verifhook.Tok
	orig      string // dense bases: the layout the text was condensed from (becomes a variant)
}

// c19Dense re-emits the token sequence of src on a single line, one space between tokens.
func c19Dense(src string, toks []verifhook.Tok) string {
	var sb strings.Builder
	for i, t := range toks {
		if i > 0 {
			sb.WriteByte(' ')
		}
		sb.WriteString(src[t.Start:t.End])
	}
	sb.WriteByte('\n')
	return sb.String()
}

// c19Relayout presents the original layout as a variant of its dense base: the same tokens with
// whitespace and newlines inserted into (almost) every gap.
func c19Relayout(b *c19Base, bi int) (c19Variant, bool) {
	ot, lexErrs, err := c19Tokenize(b.orig)
	if err != nil || lexErrs > 0 || len(ot) != len(b.toks) {
		return c19Variant{}, false
	}
	v := c19Variant{base: bi, src: b.orig, shift: make([]int, len(ot)), kinds: map[string]bool{"relayout": true, "newline": true}}
	for i := range ot {
		if b.orig[ot[i].Start:ot[i].End] != b.src[b.toks[i].Start:b.toks[i].End] {
			return c19Variant{}, false
		}
		v.shift[i] = ot[i].Start - b.toks[i].Start
		if i > 0 && v.shift[i] != v.shift[i-1] {
			v.gaps++
		}
	}
	v.gapTokens = []string{"every statement boundary (original layout against the one-line layout)"}
	return v, true
}

type c19Variant struct {
	base      int
	src       string
	shift     []int // shift[k] = bytes inserted at or before token k's start
	gaps      int
	kinds     map[string]bool
	gapTokens []string
}

func c19Tokenize(src string) (toks []verifhook.Tok, lexErrs int, err error) {
	defer func() {
		if r := recover(); r != nil {
			err = fmt.Errorf("lexer panic: %v", r)
		}
	}()
	toks, lexErrs = verifhook.Tokenize(src)
	return
}

// c19MakeVariant inserts trivia right before the start of chosen tokens (i.e. at the end of the gap).
func c19MakeVariant(rng *rand.Rand, b *c19Base, bi int, hot []int) c19Variant {
	nt := len(b.toks)
	k := 1 + rng.IntN(40)
	if k > nt {
		k = nt
	}
	chosen := map[int]bool{}
	for tries := 0; len(chosen) < k && tries < 20*k; tries++ {
		if len(hot) > 0 && rng.IntN(2) == 0 {
			chosen[hot[rng.IntN(len(hot))]] = true
		} else {
			chosen[rng.IntN(nt)] = true
		}
	}
	k = len(chosen)
	v := c19Variant{base: bi, shift: make([]int, nt), gaps: k, kinds: map[string]bool{}}
	var out strings.Builder
	prev := 0
	added := 0
	for i, t := range b.toks {
		if chosen[i] {
			out.WriteString(b.src[prev:t.Start])
			prev = t.Start
			tr, kinds := c19Trivia(rng, t.Kind == "fn" || t.Value == "fn")
			out.WriteString(tr)
			added += len(tr)
			for _, kd := range kinds {
				v.kinds[kd] = true
			}
			if len(v.gapTokens) < 6 {
				v.gapTokens = append(v.gapTokens, fmt.Sprintf("before %q", t.Value))
			}
		}
		v.shift[i] = added
	}
	out.WriteString(b.src[prev:])
	v.src = out.String()
	return v
}

type c19Key struct {
	sev, code, msg string
	line, col      int
}

func (k c19Key) String() string {
	return fmt.Sprintf("%s[%s] %s @%d:%d", k.sev, k.code, k.msg, k.line, k.col)
}

// c19Expected maps the diagnostics of P through the token correspondence into P'.
// ambiguous = number of diagnostics whose location is not on a token (inside a gap).
func c19Expected(b *c19Base, v *c19Variant, diags []core.Diag) (keys [][]c19Key, onToken, ambiguous int) {
	for _, d := range diags {
		k := c19Key{sev: d.Severity, code: d.Code, msg: d.Message}
		if d.Line == 0 || d.File == "" {
			// no location (an empty file name with 1:1 is the emitter's rendering of "nowhere")
			keys = append(keys, []c19Key{k})
			continue
		}
		off := offsetOf(b.src, d.Line, d.Col)
		var cands []int
		if off >= 0 {
			for i, t := range b.toks {
				if (off >= t.Start && off < t.End) || (off == t.Start && t.Start == t.End) {
					cands = append(cands, off+v.shift[i])
				}
				// exactly at the end of a token: when the next token starts right there the base
				// location is ambiguous (end of one, start of the other) and both images are allowed
				if off == t.End && t.End > t.Start {
					cands = append(cands, off+v.shift[i])
				}
			}
		}
		if len(cands) == 0 {
			ambiguous++
			k.line, k.col = -1, -1
			keys = append(keys, []c19Key{k})
			continue
		}
		onToken++
		var alts []c19Key
		for _, no := range cands {
			a := k
			a.line, a.col = posModel(v.src, no)
			alts = append(alts, a)
		}
		keys = append(keys, alts)
	}
	return
}

func c19Multiset(keys []c19Key) map[c19Key]int {
	m := map[c19Key]int{}
	for _, k := range keys {
		m[k]++
	}
	return m
}

func c19Actual(diags []core.Diag) []c19Key {
	var out []c19Key
	for _, d := range diags {
		k := c19Key{sev: d.Severity, code: d.Code, msg: d.Message, line: d.Line, col: d.Col}
		if d.File == "" {
			k.line, k.col = 0, 0
		}
		out = append(out, k)
	}
	return out
}

// c19DiffDiags compares expected and actual diagnostics as multisets; each expected diagnostic
// carries one or two admissible positions; diagnostics whose base location is in a gap are
// matched on (severity, code, message) only.
func c19DiffDiags(exp [][]c19Key, act []c19Key) string {
	am := c19Multiset(act)
	var loose []c19Key
	var missing []string
	// unambiguous ones first, so that an ambiguous one cannot steal their match
	order := make([]int, 0, len(exp))
	for i := range exp {
		if len(exp[i]) == 1 {
			order = append(order, i)
		}
	}
	for i := range exp {
		if len(exp[i]) != 1 {
			order = append(order, i)
		}
	}
	for _, i := range order {
		alts := exp[i]
		if alts[0].line == -1 {
			loose = append(loose, alts[0])
			continue
		}
		matched := false
		for _, e := range alts {
			if am[e] > 0 {
				am[e]--
				matched = true
				break
			}
		}
		if !matched {
			var ss []string
			for _, e := range alts {
				ss = append(ss, e.String())
			}
			missing = append(missing, strings.Join(ss, " or "))
		}
	}
	for _, e := range loose {
		found := false
		for a, n := range am {
			if n > 0 && a.sev == e.sev && a.code == e.code && a.msg == e.msg {
				am[a]--
				found = true
				break
			}
		}
		if !found {
			missing = append(missing, e.String()+" (location not compared)")
		}
	}
	var extra []string
	for a, n := range am {
		for i := 0; i < n; i++ {
			extra = append(extra, a.String())
		}
	}
	if len(missing) == 0 && len(extra) == 0 {
		return ""
	}
	sort.Strings(missing)
	sort.Strings(extra)
	return fmt.Sprintf("expected but not reported (mapped through the token correspondence):\n  %s\nreported but not expected:\n  %s", strings.Join(missing, "\n  "), strings.Join(extra, "\n  "))
}

func c19DiagSig(diff string) string {
	// normalised: first missing diagnostic without its position
	for _, l := range strings.Split(diff, "\n") {
		l = strings.TrimSpace(l)
		if strings.HasPrefix(l, "error") || strings.HasPrefix(l, "warning") || strings.HasPrefix(l, "info") {
			if i := strings.LastIndex(l, " @"); i > 0 {
				l = l[:i]
			}
			return core.Short(l, 80)
		}
	}
	return ""
}

func checkC19(c *Ctx) error {
	r := c.R
	r.Rule = "P' = P with trivia (spaces, tab-terminated runs, LF/CRLF newlines, line comments, single- and multi-line block comments with code-like, quote, @extern and non-ASCII text) inserted in 1..40 token gaps of P (P is a generated program in its usual layout, a type-error or token-mutation twin of it, or the same token sequence condensed onto ONE line, in which case the usual layout is itself one of the variants), token boundaries taken from the compiler's own lexer (verif hook). Required: same verdict and exit status; the multiset of diagnostics {severity, code, message, line:column} of P' equals that of P mapped through the token correspondence, positions recomputed by the rig's own model (line = 1 + newlines, column = 1 + rune widths, tab = 4); for accepted P the executables of P and P' print the same lines and end the same way. non-trivial = a distinct P' whose verdict was decided and which had >= 1 located diagnostic compared or was executed"
	r.Assumptions = []string{
		"tabs are inserted only as the last character of a whitespace run (Position.Advance's documented quirk after a tab is pinned by TestPositionAdvance and is not part of this property)",
		"comment text containing @extern is not inserted in the gap immediately before `fn` (documented pragma position)",
		"a diagnostic of P whose location is not on a token (inside a gap) is compared on severity/code/message only and counted",
	}
	gates := gatedFeatures(c)
	nAcc := c.N(16, 400)
	nVar := c.N(3, 5)
	exprSp, _ := c03ExprSpellings(nil)
	var bases []c19Base
	addBase := func(id, class, src string) {
		toks, lexErrs, err := c19Tokenize(src)
		if err != nil || lexErrs > 0 || len(toks) < 5 {
			r.Count("bases_skipped_lexer_errors", 1)
			return
		}
		bases = append(bases, c19Base{id: id, class: class, src: src, toks: toks})
	}
	for b := 0; b < nAcc; b++ {
		rng := r.Rng(b)
		p := gen.Generate(rng, &gen.Config{Off: gates, MainLen: 6 + rng.IntN(8)})
		p.RawDecls = append(p.RawDecls, c03Support)
		src := p.Source()
		addBase(fmt.Sprintf("gen:%d:%d:accepted", c.Env.Seed, b), "accepted", src)
		// the same program condensed onto one line: every newline of the usual layout is then an
		// insertion, and constructs that normally sit on lines of their own share a line
		if dt, le, err := c19Tokenize(src); err == nil && le == 0 && len(dt) >= 5 {
			dense := c19Dense(src, dt)
			if nt, le2, err2 := c19Tokenize(dense); err2 == nil && le2 == 0 && len(nt) == len(dt) {
				bases = append(bases, c19Base{id: fmt.Sprintf("gen:%d:%d:accepted-dense", c.Env.Seed, b), class: "accepted-dense", src: dense, toks: nt, orig: src})
			} else {
				r.Count("dense_layout_not_token_equivalent(skipped)", 1)
			}
		}
		// type-error twin: one C03 rule injected
		sites := gen.Sites(p)
		for tries := 0; tries < 2; tries++ {
			rule := c03Rules[rng.IntN(len(c03Rules))]
			sp := append(append([]string{}, rule.stmt...), exprSp[rule.name]...)
			if len(sp) == 0 {
				continue
			}
			site := sites[rng.IntN(len(sites))]
			snippet := sp[rng.IntN(len(sp))]
			undo := gen.InsertAt(site, rng.IntN(site.Max+1), &gen.Raw{Text: snippet})
			// every second twin carries the same violation twice (two diagnostics with the same text at
			// different places)
			undo2 := func() {}
			if tries == 1 {
				site2 := sites[rng.IntN(len(sites))]
				undo2 = gen.InsertAt(site2, rng.IntN(site2.Max+1), &gen.Raw{Text: snippet})
			}
			esrc := p.Source()
			addBase(fmt.Sprintf("gen:%d:%d:type-error:%d", c.Env.Seed, b, tries), "type-error", esrc)
			// and condensed onto one line, where all its diagnostics share a line
			if dt, le, err := c19Tokenize(esrc); err == nil && le == 0 && len(dt) >= 5 {
				dense := c19Dense(esrc, dt)
				if nt, le2, err2 := c19Tokenize(dense); err2 == nil && le2 == 0 && len(nt) == len(dt) {
					bases = append(bases, c19Base{id: fmt.Sprintf("gen:%d:%d:type-error-dense:%d", c.Env.Seed, b, tries), class: "type-error-dense", src: dense, toks: nt, orig: esrc})
				}
			}
			undo2()
			undo()
		}
		// parse-error twins: delete / duplicate / swap tokens of the accepted text
		toks, _, err := c19Tokenize(src)
		if err != nil || len(toks) < 10 {
			continue
		}
		for tries := 0; tries < 2; tries++ {
			i := rng.IntN(len(toks) - 2)
			t, u := toks[i], toks[i+1]
			var m string
			switch rng.IntN(3) {
			case 0:
				m = src[:t.Start] + src[t.End:]
			case 1:
				m = src[:t.End] + " " + src[t.Start:t.End] + src[t.End:]
			default:
				m = src[:t.Start] + src[u.Start:u.End] + src[t.End:u.Start] + src[t.Start:t.End] + src[u.End:]
			}
			addBase(fmt.Sprintf("gen:%d:%d:token-mutation:%d", c.Env.Seed, b, tries), "token-mutation", m)
		}
	}
	// bases first: their diagnostics tell which tokens carry positions worth disturbing
	var tcs []TC
	for _, b := range bases {
		tcs = append(tcs, TC{ID: b.id, Files: map[string]string{"main.fer": b.src}})
	}
	results, dirs, err := c.TypecheckAll("c19b", tcs)
	if err != nil {
		return err
	}
	// variants: half of the gaps are drawn from the "hot" tokens - the tokens of a line that
	// carries a diagnostic, up to and including the token the diagnostic points at
	var vars []c19Variant
	for bi := range bases {
		b := &bases[bi]
		hot := map[int]bool{}
		for _, d := range results[bi].Diags {
			if d.Line == 0 || d.File == "" {
				continue
			}
			off := offsetOf(b.src, d.Line, d.Col)
			for ti, t := range b.toks {
				if t.Line == d.Line && (off < 0 || t.Start <= off) {
					hot[ti] = true
				}
			}
		}
		var hotList []int
		for ti := range b.toks {
			if hot[ti] {
				hotList = append(hotList, ti)
			}
		}
		if b.orig != "" {
			if v, ok := c19Relayout(b, bi); ok {
				vars = append(vars, v)
			}
		}
		for k := 0; k < nVar; k++ {
			rng := core.CaseRng(c.Env.Seed, "c19v:"+b.id, k)
			vars = append(vars, c19MakeVariant(rng, b, bi, hotList))
		}
	}
	var vtcs []TC
	for i, v := range vars {
		vtcs = append(vtcs, TC{ID: fmt.Sprintf("%s:v%d", bases[v.base].id, i), Files: map[string]string{"main.fer": v.src}})
	}
	vres, vdirs, err := c.TypecheckAll("c19v", vtcs)
	if err != nil {
		return err
	}
	tcs = append(tcs, vtcs...)
	results = append(results, vres...)
	dirs = append(dirs, vdirs...)
	// the diagnostics name the file by path: strip the directory so P and P' agree
	type exec struct{ vi int }
	var toRun []int
	okVariant := make([]bool, len(vars))
	kindsSeen := map[string]int{}
	classSeen := map[string]int{}
	for vi := range vars {
		v := &vars[vi]
		b := &bases[v.base]
		rb, rv := results[v.base], results[len(bases)+vi]
		id := tcs[len(bases)+vi].ID
		r.Eval()
		replay := map[string]string{"base": b.src, "variant": v.src}
		if rb.Crash != "" || rb.Proc.CPUOut {
			r.Count("bases_crashing(C13's business)", 1)
			continue
		}
		if rv.Crash != "" || rv.Proc.CPUOut {
			if cli, _ := c.ConfirmCLI(dirs[len(bases)+vi]); cli.Crash != "" || cli.Proc.CPUOut {
				r.Fail(core.Failure{Case: id, Signature: "crash-only-with-trivia: " + cli.Crash, Detail: fmt.Sprintf("base (%s) compiled without crash; variant with trivia in %d gaps (%v) crashed: %s", b.class, v.gaps, v.gapTokens, cli.Crash), Replay: replay})
			}
			continue
		}
		if rb.Accepted() != rv.Accepted() || rb.Proc.Exit != rv.Proc.Exit {
			cb, _ := c.ConfirmCLI(dirs[v.base])
			cv, _ := c.ConfirmCLI(dirs[len(bases)+vi])
			if cb.Accepted() != cv.Accepted() || cb.Proc.Exit != cv.Proc.Exit {
				r.Fail(core.Failure{Case: id, Signature: "verdict-changed-by-trivia", Detail: fmt.Sprintf("base (%s): exit %d accepted=%v; with trivia in %d gaps (%v): exit %d accepted=%v first error: %s", b.class, cb.Proc.Exit, cb.Accepted(), v.gaps, v.gapTokens, cv.Proc.Exit, cv.Accepted(), cv.FirstError()), Replay: replay})
			} else {
				r.Inconclusive("in-process and CLI verdicts differ for " + id)
			}
			continue
		}
		exp, onTok, amb := c19Expected(b, v, rb.Diags)
		diff := c19DiffDiags(exp, c19Actual(rv.Diags))
		if diff != "" {
			// confirm with the CLI on both sides
			cb, _ := c.ConfirmCLI(dirs[v.base])
			cv, _ := c.ConfirmCLI(dirs[len(bases)+vi])
			exp2, _, _ := c19Expected(b, v, cb.Diags)
			if d2 := c19DiffDiags(exp2, c19Actual(cv.Diags)); d2 != "" {
				r.Fail(core.Failure{Case: id, Signature: "diagnostics-do-not-follow-the-text: " + c19DiagSig(d2), Detail: fmt.Sprintf("base class %s, trivia in %d gaps (%v)\n%s", b.class, v.gaps, v.gapTokens, d2), Replay: replay})
				continue
			}
			r.Inconclusive("in-process and CLI diagnostics differ for " + id)
			continue
		}
		r.Count("located_diagnostics_compared", onTok)
		r.Count("diagnostics_located_in_a_gap(message only)", amb)
		okVariant[vi] = true
		for kd := range v.kinds {
			kindsSeen[kd]++
		}
		classSeen[b.class+"/"+map[bool]string{true: "accepted", false: "rejected"}[rb.Accepted()]]++
		r.Count("gaps_with_trivia", v.gaps)
		if rb.Accepted() {
			toRun = append(toRun, vi)
		} else if onTok > 0 {
			r.Nontrivial(v.src)
		}
	}
	r.Set("trivia_kinds_seen", kindsSeen)
	r.Set("base_class_x_verdict", classSeen)
	// output comparison for accepted programs
	type runOut struct {
		ok    bool
		lines []string
		kind  core.RunKind
		msg   string
		note  string
	}
	baseRun := map[int]*runOut{}
	var baseIdx []int
	for _, vi := range toRun {
		if _, ok := baseRun[vars[vi].base]; !ok {
			baseRun[vars[vi].base] = &runOut{}
			baseIdx = append(baseIdx, vars[vi].base)
		}
	}
	build := func(tag string, idx int, src string) *runOut {
		pr, err := buildAndRun(c, tag, idx, src, core.Native, false)
		if err != nil {
			return &runOut{note: err.Error()}
		}
		if !pr.Compile.Accepted() {
			return &runOut{note: "native build failed: exit " + fmt.Sprint(pr.Compile.Proc.Exit) + " " + pr.Compile.FirstError() + " " + pr.Compile.Crash}
		}
		return &runOut{ok: true, lines: pr.Run.Lines, kind: pr.Run.Kind, msg: pr.Run.PanicMsg}
	}
	core.ParDo(len(baseIdx), 6, func(k int) {
		*baseRun[baseIdx[k]] = *build("c19b", baseIdx[k], bases[baseIdx[k]].src)
	})
	varRun := make([]*runOut, len(toRun))
	core.ParDo(len(toRun), 6, func(k int) {
		varRun[k] = build("c19v", toRun[k], vars[toRun[k]].src)
	})
	for k, vi := range toRun {
		v := &vars[vi]
		b := &bases[v.base]
		id := tcs[len(bases)+vi].ID
		br, vr := baseRun[v.base], varRun[k]
		r.Eval()
		replay := map[string]string{"base": b.src, "variant": v.src}
		if br.ok != vr.ok {
			r.Fail(core.Failure{Case: id + "@native", Signature: "native-build-changed-by-trivia", Detail: fmt.Sprintf("base: ok=%v %s; variant: ok=%v %s", br.ok, br.note, vr.ok, vr.note), Replay: replay})
			continue
		}
		if !br.ok {
			r.Count("accepted_bases_without_native_build(C01's business)", 1)
			continue
		}
		if br.kind == core.RunTimeout || vr.kind == core.RunTimeout {
			r.Inconclusive("run timed out for " + id)
			continue
		}
		if strings.Join(br.lines, "\n") != strings.Join(vr.lines, "\n") || br.kind != vr.kind || br.msg != vr.msg {
			// re-run the base to exclude a nondeterministic program
			again := build("c19b2", vi, b.src)
			if strings.Join(again.lines, "\n") != strings.Join(br.lines, "\n") || again.kind != br.kind {
				r.Inconclusive("base program is not deterministic: " + b.id)
				continue
			}
			r.Fail(core.Failure{Case: id + "@native", Signature: "output-changed-by-trivia", Detail: fmt.Sprintf("base ended %s (%s) with %d lines, variant ended %s (%s) with %d lines\nbase:    %v\nvariant: %v", br.kind, br.msg, len(br.lines), vr.kind, vr.msg, len(vr.lines), clip(br.lines, 0), clip(vr.lines, 0)), Replay: replay})
			continue
		}
		r.Count("executed_pairs_with_equal_output", 1)
		r.Count("output_lines_compared", len(br.lines))
		r.Nontrivial(v.src)
	}
	if len(vars) > 0 {
		v := vars[len(vars)/2]
		r.Sample(map[string]interface{}{"base_class": bases[v.base].class, "gaps": v.gaps, "where": v.gapTokens, "variant_head": core.Short(v.src, 900)})
	}
	_ = utf8.RuneLen
	_ = filepath.Base
	return nil
}
