package props

import (
	"fmt"
	"strings"

	"verifrig/core"
)

// C06 — immutable bindings cannot be modified.
// Verdict monitor, exhaustive over (immutable place kind x access path) x mutation form x context.
// Each program applies exactly one mutation form to one immutable place; the control group is the
// same program with the binding made mutable (must be accepted). Wrongly accepted programs are
// compiled and run natively to print the value seen through the binding before and after.

func init() { register("C06", checkC06) }

const c06Prelude = `import "std/io";

type In struct { .A: i32, .B: i32 };
type P struct { .X: i32, .Y: i32, .In: In, .Arr: [3]i32 };
type W struct { .N: i32 };

fn (p: &'P) bump() {
    p.X = p.X + 1;
}

fn (p: &'In) bumpIn() {
    p.A = p.A + 1;
}

fn incI(r: &'i32) {
    r = r + 1;
}

fn incP(r: &'P) {
    r.X = r.X + 1;
}

fn incIn(r: &'In) {
    r.A = r.A + 1;
}

fn incArr(r: &'[3]i32) {
    r[0] = 9;
}

fn setS(r: &'str) {
    r = "changed";
}

fn grow(r: &'[]i32) {
    append(r, 1);
}

type BoxD struct { .F: []i32, .N: i32 };

type Hits struct { .N: i32, .In: In };

type View struct { .Hits: &'Hits, .K: i32 };

fn fail() -> str ! i32 {
    return "bad"!;
}

fn mkP() -> P {
    return { .X = 1, .Y = 2, .In = { .A = 3, .B = 4 }, .Arr = [5, 6, 7] } as P;
}
`

type c06Place struct {
	kind    string // place kind id
	path    string // access path expression
	pty     string // i32 | P | In | arr | str
	witness string // expression printing the observed value
}

type c06Kind struct {
	name     string
	modDecl  [2]string // [immutable, mutable] module-level declarations
	header   [2]string // function header of `work`
	local    [2]string // local declarations at the top of work
	open     string    // text opening a construct S must live in (for-index, catch)
	close    string
	call     string // how main calls work
	places   []c06Place
	noMutVar bool // no mutable counterpart: control = program without the mutation
}

const pLit = "{ .X = 1, .Y = 2, .In = { .A = 3, .B = 4 }, .Arr = [5, 6, 7] }"

func c06Kinds() []c06Kind {
	structPaths := func(kind, root string) []c06Place {
		return []c06Place{
			{kind, root, "P", root + ".X"},
			{kind, root + ".X", "i32", root + ".X"},
			{kind, "(" + root + ").X", "i32", root + ".X"},
			{kind, "(" + root + ".X)", "i32", root + ".X"},
			{kind, root + ".In", "In", root + ".In.A"},
			{kind, root + ".In.A", "i32", root + ".In.A"},
			{kind, root + ".Arr[1]", "i32", root + ".Arr[1]"},
			{kind, root + ".Arr", "arr", root + ".Arr[0]"},
		}
	}
	return []c06Kind{
		{name: "const-scalar",
			header: [2]string{"fn work()", "fn work()"}, call: "work();",
			local:  [2]string{"const k: i32 = 5;", "let k: i32 = 5;"},
			places: []c06Place{{"const-scalar", "k", "i32", "k"}, {"const-scalar", "(k)", "i32", "k"}}},
		{name: "const-struct",
			header: [2]string{"fn work()", "fn work()"}, call: "work();",
			local:  [2]string{"const p: P = " + pLit + ";", "let p: P = " + pLit + ";"},
			places: structPaths("const-struct", "p")},
		{name: "const-array",
			header: [2]string{"fn work()", "fn work()"}, call: "work();",
			local:  [2]string{"const a: [3]i32 = [1, 2, 3];", "let a: [3]i32 = [1, 2, 3];"},
			places: []c06Place{{"const-array", "a[0]", "i32", "a[0]"}, {"const-array", "a[-1]", "i32", "a[2]"}, {"const-array", "(a)[1]", "i32", "a[1]"}, {"const-array", "a", "arr", "a[0]"}}},
		{name: "const-dyn-array",
			header: [2]string{"fn work()", "fn work()"}, call: "work();",
			local:  [2]string{"const d: []i32 = [1, 2, 3];", "let d: []i32 = [1, 2, 3];"},
			places: []c06Place{{"const-dyn-array", "d[0]", "i32elem", "d[0]"}, {"const-dyn-array", "d[-1]", "i32elem", "d[2]"}, {"const-dyn-array", "(d)[1]", "i32elem", "d[1]"}, {"const-dyn-array", "d", "dyn", "d[0]"}}},
		{name: "const-nested-dyn-array",
			header: [2]string{"fn work()", "fn work()"}, call: "work();",
			local:  [2]string{"const g: [][]i32 = [[1, 2], [3]];", "let g: [][]i32 = [[1, 2], [3]];"},
			places: []c06Place{{"const-nested-dyn-array", "g[0][1]", "i32elem", "g[0][1]"}, {"const-nested-dyn-array", "g", "dyn2", "g[0][0]"}}},
		{name: "const-struct-with-dyn-field",
			header: [2]string{"fn work()", "fn work()"}, call: "work();",
			local:  [2]string{"const bd: BoxD = { .F = [1, 2], .N = 3 };", "let bd: BoxD = { .F = [1, 2], .N = 3 };"},
			places: []c06Place{{"const-struct-with-dyn-field", "bd.F[0]", "i32elem", "bd.F[0]"}, {"const-struct-with-dyn-field", "bd.F", "dyn", "bd.F[0]"}, {"const-struct-with-dyn-field", "bd.N", "i32", "bd.N"}}},
		{name: "const-str",
			header: [2]string{"fn work()", "fn work()"}, call: "work();",
			local:  [2]string{"const cs: str = \"abc\";", "let cs: str = \"abc\";"},
			places: []c06Place{{"const-str", "cs", "str", "cs"}}},
		{name: "const-map",
			header: [2]string{"fn work()", "fn work()"}, call: "work();",
			local:  [2]string{"const cm := {\"a\" => 1} as map[str]i32;", "let cm := {\"a\" => 1} as map[str]i32;"},
			places: []c06Place{{"const-map", "cm[\"a\"]", "mapelem", "len(cm)"}, {"const-map", "cm", "mapwhole", "len(cm)"}}},
		{name: "const-optional",
			header: [2]string{"fn work()", "fn work()"}, call: "work();",
			local:  [2]string{"const co: i32? = 3;", "let co: i32? = 3;"},
			places: []c06Place{{"const-optional", "co", "opt", "co ?? 0"}}},
		{name: "global-const",
			modDecl: [2]string{"const G: i32 = 7;\nconst GP: P = " + pLit + ";", "let G: i32 = 7;\nlet GP: P = " + pLit + ";"},
			header:  [2]string{"fn work()", "fn work()"}, call: "work();",
			places: []c06Place{{"global-const", "G", "i32", "G"}, {"global-const", "GP.X", "i32", "GP.X"}, {"global-const", "GP.In.A", "i32", "GP.In.A"}, {"global-const", "(GP.Arr)[2]", "i32", "GP.Arr[2]"}}},
		{name: "const-in-method",
			header: [2]string{"fn (w: &'W) work()", "fn (w: &'W) work()"}, call: "let w0: W = { .N = 1 };\n    w0.work();",
			local:  [2]string{"const p: P = " + pLit + ";\n    const k: i32 = 5;", "let p: P = " + pLit + ";\n    let k: i32 = 5;"},
			places: []c06Place{{"const-in-method", "k", "i32", "k"}, {"const-in-method", "p.X", "i32", "p.X"}, {"const-in-method", "p.In", "In", "p.In.A"}, {"const-in-method", "p", "P", "p.X"}}},
		{name: "for-index", noMutVar: true,
			header: [2]string{"fn work()", "fn work()"}, call: "work();",
			local: [2]string{"let items := [10, 20, 30];", "let items := [10, 20, 30];"},
			open:  "for i, v in items {", close: "}",
			places: []c06Place{{"for-index", "i", "i32", "i"}, {"for-index", "(i)", "i32", "i"}}},
		{name: "for-index-discarded-value", noMutVar: true,
			header: [2]string{"fn work()", "fn work()"}, call: "work();",
			local: [2]string{"let items := [10, 20, 30];", "let items := [10, 20, 30];"},
			open:  "for i, _ in items {", close: "}",
			places: []c06Place{{"for-index-discarded-value", "i", "i32", "i"}, {"for-index-discarded-value", "(i)", "i32", "i"}}},
		{name: "for-index-range", noMutVar: true,
			header: [2]string{"fn work()", "fn work()"}, call: "work();",
			local: [2]string{"let lo: i32 = 0;\n    let hi: i32 = 3;", "let lo: i32 = 0;\n    let hi: i32 = 3;"},
			open:  "for i, v in lo..hi {", close: "}",
			places: []c06Place{{"for-index-range", "i", "i32", "i"}}},
		{name: "for-index-range-discarded-value", noMutVar: true,
			header: [2]string{"fn work()", "fn work()"}, call: "work();",
			local: [2]string{"let lo: i32 = 0;\n    let hi: i32 = 3;", "let lo: i32 = 0;\n    let hi: i32 = 3;"},
			open:  "for i, _ in lo..hi {", close: "}",
			places: []c06Place{{"for-index-range-discarded-value", "i", "i32", "i"}}},
		{name: "for-index-string", noMutVar: true,
			header: [2]string{"fn work()", "fn work()"}, call: "work();",
			local: [2]string{"let text := \"abc\";", "let text := \"abc\";"},
			open:  "for i, ch in text {", close: "}",
			places: []c06Place{{"for-index-string", "i", "i32", "i"}}},
		{name: "for-index-string-discarded-value", noMutVar: true,
			header: [2]string{"fn work()", "fn work()"}, call: "work();",
			local: [2]string{"let text := \"abc\";", "let text := \"abc\";"},
			open:  "for i, _ in text {", close: "}",
			places: []c06Place{{"for-index-string-discarded-value", "i", "i32", "i"}}},
		{name: "for-key-map", noMutVar: true,
			header: [2]string{"fn work()", "fn work()"}, call: "work();",
			local: [2]string{"let tab := {\"a\" => 1, \"b\" => 2} as map[str]i32;", "let tab := {\"a\" => 1, \"b\" => 2} as map[str]i32;"},
			open:  "for k, v in tab {", close: "}",
			places: []c06Place{{"for-key-map", "k", "str", "k"}}},
		{name: "for-key-map-discarded-value", noMutVar: true,
			header: [2]string{"fn work()", "fn work()"}, call: "work();",
			local: [2]string{"let tab := {\"a\" => 1, \"b\" => 2} as map[str]i32;", "let tab := {\"a\" => 1, \"b\" => 2} as map[str]i32;"},
			open:  "for k, _ in tab {", close: "}",
			places: []c06Place{{"for-key-map-discarded-value", "k", "str", "k"}}},
		{name: "catch-error", noMutVar: true,
			header: [2]string{"fn work()", "fn work()"}, call: "work();",
			open: "let z := fail() catch e {", close: "} 0;",
			places: []c06Place{{"catch-error", "e", "str", "e"}}},
		{name: "ref-param",
			header: [2]string{"fn work(p: &P, r: &i32, a: &[3]i32)", "fn work(p: &'P, r: &'i32, a: &'[3]i32)"},
			call:   "let p0: P = mkP();\n    let x0: i32 = 4;\n    let a0: [3]i32 = [1, 2, 3];\n    work(&'p0, &'x0, &'a0);",
			places: append(structPaths("ref-param", "p")[1:], c06Place{"ref-param", "r", "i32ref", "r"}, c06Place{"ref-param", "a[0]", "i32", "a[0]"}, c06Place{"ref-param", "p", "Pref", "p.X"})},
		{name: "ref-receiver",
			header: [2]string{"fn (s: &P) work()", "fn (s: &'P) work()"},
			call:   "let p0: P = mkP();\n    p0.work();",
			places: append(structPaths("ref-receiver", "s")[1:], c06Place{"ref-receiver", "s", "Pref", "s.X"})},
		// a struct that holds a mutable reference, itself reached through an immutable reference:
		// what lies behind the inner &' field is still reached through the immutable outer reference
		{name: "ref-param-to-struct-with-mut-ref-field",
			header: [2]string{"fn work(v: &View)", "fn work(v: &'View)"},
			call:   "let h0: Hits = { .N = 1, .In = { .A = 3, .B = 4 } };\n    let v0: View = { .Hits = &'h0, .K = 2 };\n    work(&'v0);",
			places: []c06Place{{"ref-param-to-struct-with-mut-ref-field", "v.Hits.N", "i32", "v.Hits.N"}, {"ref-param-to-struct-with-mut-ref-field", "v.Hits.In.A", "i32", "v.Hits.In.A"}, {"ref-param-to-struct-with-mut-ref-field", "v.Hits.In", "In", "v.Hits.In.A"}, {"ref-param-to-struct-with-mut-ref-field", "v.K", "i32", "v.K"}}},
		{name: "ref-receiver-to-struct-with-mut-ref-field",
			header: [2]string{"fn (v: &View) work()", "fn (v: &'View) work()"},
			call:   "let h0: Hits = { .N = 1, .In = { .A = 3, .B = 4 } };\n    let v0: View = { .Hits = &'h0, .K = 2 };\n    v0.work();",
			places: []c06Place{{"ref-receiver-to-struct-with-mut-ref-field", "v.Hits.N", "i32", "v.Hits.N"}, {"ref-receiver-to-struct-with-mut-ref-field", "v.Hits.In.B", "i32", "v.Hits.In.B"}}},
		{name: "ref-local-to-struct-with-mut-ref-field",
			header: [2]string{"fn work()", "fn work()"}, call: "work();",
			local: [2]string{"let h0: Hits = { .N = 1, .In = { .A = 3, .B = 4 } };\n    let v0: View = { .Hits = &'h0, .K = 2 };\n    let v: &View = &v0;",
				"let h0: Hits = { .N = 1, .In = { .A = 3, .B = 4 } };\n    let v0: View = { .Hits = &'h0, .K = 2 };\n    let v: &'View = &'v0;"},
			places: []c06Place{{"ref-local-to-struct-with-mut-ref-field", "v.Hits.N", "i32", "v.Hits.N"}}},
		{name: "ref-local",
			header: [2]string{"fn work()", "fn work()"}, call: "work();",
			local: [2]string{"let x0: i32 = 4;\n    let p0: P = mkP();\n    let r: &i32 = &x0;\n    let q: &P = &p0;",
				"let x0: i32 = 4;\n    let p0: P = mkP();\n    let r: &'i32 = &'x0;\n    let q: &'P = &'p0;"},
			places: append(structPaths("ref-local", "q")[1:], c06Place{"ref-local", "r", "i32ref", "r"}, c06Place{"ref-local", "q", "Pref", "q.X"})},
	}
}

type c06Form struct {
	name string
	stmt func(path string) string
}

// forms applicable to a place of the given type
func c06Forms(pty string) []c06Form {
	switch pty {
	case "i32":
		return []c06Form{
			{"assign", func(p string) string { return p + " = 9;" }},
			{"add-assign", func(p string) string { return p + " += 1;" }},
			{"sub-assign", func(p string) string { return p + " -= 1;" }},
			{"mul-assign", func(p string) string { return p + " *= 2;" }},
			{"inc", func(p string) string { return p + "++;" }},
			{"dec", func(p string) string { return p + "--;" }},
			{"mut-borrow", func(p string) string { return "let m: &'i32 = &'" + p + ";" }},
			{"pass-mut", func(p string) string { return "incI(&'" + p + ");" }},
		}
	case "i32elem": // an element of a dynamic array: not addressable and no ++/-- in this language, so only stores
		return []c06Form{
			{"assign", func(p string) string { return p + " = 9;" }},
			{"add-assign", func(p string) string { return p + " += 1;" }},
			{"sub-assign", func(p string) string { return p + " -= 1;" }},
			{"mul-assign", func(p string) string { return p + " *= 2;" }},
		}
	case "i32ref": // a reference variable r: &i32 used as a whole (assignment writes through)
		return []c06Form{
			{"assign", func(p string) string { return p + " = 9;" }},
			{"add-assign", func(p string) string { return p + " += 1;" }},
			{"inc", func(p string) string { return p + "++;" }},
			{"dec", func(p string) string { return p + "--;" }},
			{"pass-mut", func(p string) string { return "incI(" + p + ");" }},
		}
	case "P":
		return []c06Form{
			{"assign", func(p string) string { return p + " = mkP();" }},
			{"mut-borrow", func(p string) string { return "let m: &'P = &'" + p + ";" }},
			{"pass-mut", func(p string) string { return "incP(&'" + p + ");" }},
			{"mut-method", func(p string) string { return p + ".bump();" }},
		}
	case "Pref": // the reference itself: p: &P used as a whole
		return []c06Form{
			{"pass-mut", func(p string) string { return "incP(" + p + ");" }},
			{"mut-method", func(p string) string { return p + ".bump();" }},
			{"assign-through", func(p string) string { return p + " = mkP();" }},
		}
	case "In":
		return []c06Form{
			{"assign", func(p string) string { return p + " = { .A = 8, .B = 9 };" }},
			{"mut-borrow", func(p string) string { return "let m: &'In = &'" + p + ";" }},
			{"pass-mut", func(p string) string { return "incIn(&'" + p + ");" }},
			{"mut-method", func(p string) string { return p + ".bumpIn();" }},
		}
	case "arr":
		return []c06Form{
			{"assign", func(p string) string { return p + " = [7, 8, 9];" }},
			{"mut-borrow", func(p string) string { return "let m: &'[3]i32 = &'" + p + ";" }},
			{"pass-mut", func(p string) string { return "incArr(&'" + p + ");" }},
		}
	case "dyn":
		return []c06Form{
			{"assign", func(p string) string { return p + " = [7, 8];" }},
			{"mut-borrow", func(p string) string { return "let m: &'[]i32 = &'" + p + ";" }},
			{"pass-mut", func(p string) string { return "grow(&'" + p + ");" }},
			{"append", func(p string) string { return "append(&'" + p + ", 9);" }},
		}
	case "dyn2":
		return []c06Form{
			{"assign", func(p string) string { return p + " = [[7]];" }},
			{"mut-borrow", func(p string) string { return "let m: &'[][]i32 = &'" + p + ";" }},
			{"append", func(p string) string { return "append(&'" + p + ", [9]);" }},
		}
	case "mapelem":
		return []c06Form{
			{"assign", func(p string) string { return p + " = 2;" }},
		}
	case "mapwhole":
		return []c06Form{
			{"assign", func(p string) string { return p + " = {\"b\" => 2} as map[str]i32;" }},
			{"mut-borrow", func(p string) string { return "let m: &'map[str]i32 = &'" + p + ";" }},
		}
	case "opt":
		return []c06Form{
			{"assign", func(p string) string { return p + " = 4;" }},
			{"assign-none", func(p string) string { return p + " = none;" }},
			{"mut-borrow", func(p string) string { return "let m: &'i32? = &'" + p + ";" }},
		}
	case "str":
		return []c06Form{
			{"assign", func(p string) string { return p + " = \"x\";" }},
			{"mut-borrow", func(p string) string { return "let m: &'str = &'" + p + ";" }},
			{"pass-mut", func(p string) string { return "setS(&'" + p + ");" }},
		}
	}
	return nil
}

type c06Ctx struct {
	name string
	wrap func(s string) string
}

var c06Contexts = []c06Ctx{
	{"plain", func(s string) string { return s }},
	{"if", func(s string) string { return "if flag {\n        " + s + "\n    }" }},
	{"else", func(s string) string { return "if !flag {\n    } else {\n        " + s + "\n    }" }},
	{"while", func(s string) string { return "while flag {\n        " + s + "\n        break;\n    }" }},
	{"match-arm", func(s string) string {
		return "match sel {\n        1 => {\n            " + s + "\n        }\n        _ => {\n        }\n    }"
	}},
	{"closure", func(s string) string { return "let cl := fn() {\n        " + s + "\n    };\n    cl();" }},
	{"block", func(s string) string { return "{\n        " + s + "\n    }" }},
}

func c06Program(k c06Kind, variant int, body string, withWitness string) string {
	var sb strings.Builder
	sb.WriteString(c06Prelude)
	sb.WriteString("\n")
	if k.modDecl[variant] != "" {
		sb.WriteString(k.modDecl[variant] + "\n\n")
	}
	sb.WriteString(k.header[variant] + " {\n    let flag := true;\n    let sel := 1;\n")
	if k.local[variant] != "" {
		sb.WriteString("    " + k.local[variant] + "\n")
	}
	inner := body
	if withWitness != "" {
		inner = "let before := " + withWitness + ";\n    io::Println(before);\n    " + body + "\n    let after := " + withWitness + ";\n    io::Println(after);"
	}
	if k.open != "" {
		sb.WriteString("    " + k.open + "\n    " + inner + "\n    " + k.close + "\n")
	} else {
		sb.WriteString("    " + inner + "\n")
	}
	sb.WriteString("}\n\nfn main() {\n    " + k.call + "\n}\n")
	return sb.String()
}

func checkC06(c *Ctx) error {
	r := c.R
	r.Exhaustive = true
	r.Rule = "finite product enumerated completely: immutable place kind {local const scalar/struct/array, const dynamic array (elements, whole, nested, held in a const struct), const string, const map, const optional, module const, const inside a method, two-variable for index (over dynamic arrays, ranges, strings and map keys, with a named and with a discarded `_` value variable), catch error variable, &T parameter, &T receiver, &T local, &T to a struct that holds a &' field (the place behind that field)} x access path {ident, .f, .f.g, [k], (x), whole} x mutation form {=, +=, -=, *=, ++, --, &' borrow, pass to &' parameter, &'-receiver method, append} x context {plain, if, else, while, match arm, closure, block}; every mutant must be rejected by the real compiler; control = same program with the binding made mutable (or without the mutation when no mutable counterpart exists) must be accepted; non-trivial = a distinct mutant whose control was accepted"
	r.Assumptions = []string{"rejection for any reason counts as rejected only when the control is accepted, so the verdict is attributable to the mutation"}
	kinds := c06Kinds()
	type cse struct {
		id      string
		kind    c06Kind
		place   c06Place
		form    c06Form
		ctx     c06Ctx
		control bool
	}
	var cases []cse
	for _, k := range kinds {
		for _, pl := range k.places {
			for _, f := range c06Forms(pl.pty) {
				for _, cx := range c06Contexts {
					id := fmt.Sprintf("%s|%s|%s|%s", k.name, pl.path, f.name, cx.name)
					cases = append(cases, cse{id: id, kind: k, place: pl, form: f, ctx: cx})
					cases = append(cases, cse{id: id + "|control", kind: k, place: pl, form: f, ctx: cx, control: true})
				}
			}
		}
	}
	srcOf := func(cs cse) string {
		stmt := cs.form.stmt(cs.place.path)
		if cs.control {
			if cs.kind.noMutVar {
				return c06Program(cs.kind, 0, cs.ctx.wrap("let unused := 0;"), "")
			}
			return c06Program(cs.kind, 1, cs.ctx.wrap(stmt), "")
		}
		return c06Program(cs.kind, 0, cs.ctx.wrap(stmt), "")
	}
	tcs := make([]TC, len(cases))
	for i, cs := range cases {
		tcs[i] = TC{ID: cs.id, Files: map[string]string{"main.fer": srcOf(cs)}}
	}
	results, dirs, err := c.TypecheckAll("c06", tcs)
	if err != nil {
		return err
	}
	ctrl := map[string]core.CompileResult{}
	for i, cs := range cases {
		if cs.control {
			ctrl[strings.TrimSuffix(cs.id, "|control")] = results[i]
		}
	}
	bin, _ := c.Env.Ferret()
	libs, _ := c.Env.Libs()
	for i, cs := range cases {
		if cs.control {
			continue
		}
		res := results[i]
		src := tcs[i].Files["main.fer"]
		r.Eval()
		cr := ctrl[cs.id]
		if !cr.Accepted() {
			r.Count("control_not_accepted", 1)
			r.Inconclusive(fmt.Sprintf("control of %s not accepted: %s %s", cs.id, cr.FirstError(), cr.Crash))
			continue
		}
		if res.Crash != "" || res.Proc.CPUOut {
			cli, _ := c.ConfirmCLI(dirs[i])
			if cli.Crash != "" || cli.Proc.CPUOut {
				r.Fail(core.Failure{Case: cs.id, Signature: "compiler-crash", Detail: cli.Crash + "\n" + src, Replay: src})
			}
			continue
		}
		if res.Accepted() {
			if !c.ConfirmBudget() {
				continue
			}
			cli, _ := c.ConfirmCLI(dirs[i])
			if !cli.Accepted() {
				r.Inconclusive("in-process and CLI verdicts differ for " + cs.id)
				continue
			}
			// value witness: compile + run printing the value before and after
			wsrc := c06Program(cs.kind, 0, cs.ctx.wrap(cs.form.stmt(cs.place.path)), cs.place.witness)
			wit := "witness not produced"
			wd := c.Env.CaseDir("c06w", fmt.Sprintf("w%d", i))
			core.WriteFile(wd+"/main.fer", wsrc)
			wres := core.Compile(core.CompileOpts{Binary: bin, Libs: libs, Target: core.Native}, wd+"/main.fer")
			if wres.Accepted() {
				run := core.RunNative(wres.Artifact, 10)
				wit = fmt.Sprintf("native run (%s) printed before/after: %v", run.Kind, run.Lines)
			} else {
				wit = "witness program: " + wres.FirstError() + " " + wres.Crash
			}
			r.Fail(core.Failure{Case: cs.id, Signature: "mutation-of-immutable-accepted", Detail: fmt.Sprintf("place kind %s, path %s, form %s, context %s accepted by the compiler\n%s\n%s", cs.kind.name, cs.place.path, cs.form.name, cs.ctx.name, wit, src), Replay: src})
			continue
		}
		if !res.CleanReject() {
			r.Fail(core.Failure{Case: cs.id, Signature: "unclean-reject", Detail: fmt.Sprintf("exit=%d errors=%d\n%s", res.Proc.Exit, len(core.Errors(res.Diags)), src), Replay: src})
			continue
		}
		r.Nontrivial(cs.id)
		r.Count("rejected."+cs.kind.name, 1)
		codes := map[string]bool{}
		for _, d := range core.Errors(res.Diags) {
			codes[d.Code] = true
		}
		for cde := range codes {
			r.Count("diag_code."+cde, 1)
		}
		if i%401 == 0 {
			r.Sample(map[string]interface{}{"case": cs.id, "first_error": res.FirstError(), "program": src})
		}
	}
	return nil
}
