package props

import (
	"fmt"

	"verifrig/gen"
)

// Matrix programs: deterministic, systematic workloads run by C01 (native vs reference
// interpreter) and C02 (native vs wasm) on every run in both tiers. Where the random generator
// samples the space, these enumerate the small finite cores of it completely:
//   - every ordered pair of integer types x boundary values, cast directly and inside an expression;
//   - every integer type x operator x boundary operand pairs, stored and inside an expression;
//   - parameters (scalars, structs, fixed arrays passed by value) first touched or reassigned in a
//     loop / branch / match arm of the callee, with the caller's value printed afterwards;
//   - writes through references whose static value type is narrower than the referent.
// Values reach the code through opaque identity functions, so nothing is decided at compile time.

type matrixProg struct {
	name   string
	p      *gen.Program
	wasmOK bool
}

func mxLit(t *gen.Type, v int64) *gen.Lit { return &gen.Lit{T: t, I: gen.Norm(t, v)} }

func mxBoundary(t *gen.Type) []int64 {
	bits := uint(t.Bits)
	var vs []int64
	if t.Signed {
		min := -(int64(1) << (bits - 1))
		max := (int64(1) << (bits - 1)) - 1
		vs = []int64{min, min + 1, -2, -1, 0, 1, 2, max - 1, max}
		if bits > 8 {
			vs = append(vs, -129, 128, 255)
		}
		if bits > 16 {
			vs = append(vs, -32769, 32768, 65535)
		}
		if bits > 32 {
			vs = append(vs, -2147483649, 2147483648, 4294967295)
		}
	} else {
		var max int64
		if bits == 64 {
			max = -1 // all ones as a bit pattern; Norm keeps it
		} else {
			max = (int64(1) << bits) - 1
		}
		half := int64(1) << (bits - 1)
		vs = []int64{0, 1, 2, half - 1, half, half + 1, max - 1, max}
		if bits > 8 {
			vs = append(vs, 127, 128, 255, 256)
		}
		if bits > 16 {
			vs = append(vs, 32767, 32768, 65535, 65536)
		}
		if bits > 32 {
			vs = append(vs, 2147483647, 2147483648, 4294967295, 4294967296)
		}
	}
	return vs
}

func mxIdent(t *gen.Type) *gen.Func {
	return &gen.Func{Name: "id_" + t.String(), Params: []gen.Param{{Name: "x", T: t}}, Ret: t,
		Body: []gen.Stmt{&gen.Return{X: &gen.Var{Name: "x", T: t}}}}
}

func mxPrintLet(name string, t *gen.Type, e gen.Expr) []gen.Stmt {
	return []gen.Stmt{&gen.Let{Name: name, T: t, Init: e, Annot: true}, &gen.Print{X: &gen.Var{Name: name, T: t}}}
}

// mxCasts: one program per source type.
func mxCasts(s *gen.Type) *gen.Program {
	p := &gen.Program{Features: map[string]bool{}}
	id := mxIdent(s)
	// casts(v: S): every target type, directly and re-widened inside one expression
	v := &gen.Var{Name: "v", T: s}
	var body []gen.Stmt
	n := 0
	for _, t := range gen.IntTypes {
		if t == s {
			continue
		}
		n++
		body = append(body, mxPrintLet(fmt.Sprintf("c%d", n), t, &gen.Cast{X: v, T: t})...)
		wide := gen.I64
		if !t.Signed {
			wide = gen.U64
		}
		n++
		body = append(body, mxPrintLet(fmt.Sprintf("c%d", n), wide, &gen.Cast{X: &gen.Cast{X: v, T: t}, T: wide})...)
		// opposite signedness at 64 bit
		other := gen.U64
		if !t.Signed {
			other = gen.I64
		}
		n++
		body = append(body, mxPrintLet(fmt.Sprintf("c%d", n), other, &gen.Cast{X: &gen.Cast{X: v, T: t}, T: other})...)
	}
	casts := &gen.Func{Name: "casts", Params: []gen.Param{{Name: "v", T: s}}, Ret: gen.TVoid, Body: body}
	p.Funcs = append(p.Funcs, id, casts)
	for k, bv := range mxBoundary(s) {
		name := fmt.Sprintf("s%d", k)
		p.Main = append(p.Main, &gen.Let{Name: name, T: s, Init: &gen.Call{Fn: id, Args: []gen.Expr{mxLit(s, bv)}}, Annot: true},
			&gen.Print{X: &gen.Var{Name: name, T: s}},
			&gen.ExprStmt{X: &gen.Call{Fn: casts, Args: []gen.Expr{&gen.Var{Name: name, T: s}}}})
	}
	return p
}

// mxOps: one program per type: + - * / % and comparisons over boundary pairs.
func mxOps(t *gen.Type) *gen.Program {
	p := &gen.Program{Features: map[string]bool{}}
	id := mxIdent(t)
	a, b := &gen.Var{Name: "a", T: t}, &gen.Var{Name: "b", T: t}
	wide := gen.I64
	if !t.Signed {
		wide = gen.U64
	}
	mk := func(name string, ops []string, cmp bool) *gen.Func {
		var body []gen.Stmt
		n := 0
		for _, op := range ops {
			n++
			body = append(body, mxPrintLet(fmt.Sprintf("r%d", n), t, &gen.Bin{Op: op, L: a, R: b, T: t})...)
			// the same result used inside a wider expression without being stored first
			n++
			body = append(body, mxPrintLet(fmt.Sprintf("r%d", n), wide, &gen.Cast{X: &gen.Bin{Op: op, L: a, R: b, T: t}, T: wide})...)
			n++
			body = append(body, &gen.If{Cond: &gen.Bin{Op: ">", L: &gen.Bin{Op: op, L: a, R: b, T: t}, R: a, T: gen.TBool},
				Then: []gen.Stmt{&gen.Print{X: mxLit(gen.I32, int64(100+n))}}, Else: []gen.Stmt{&gen.Print{X: mxLit(gen.I32, int64(200+n))}}})
		}
		if cmp {
			for k, op := range []string{"<", "<=", "==", "!=", ">", ">="} {
				body = append(body, &gen.If{Cond: &gen.Bin{Op: op, L: a, R: b, T: gen.TBool},
					Then: []gen.Stmt{&gen.Print{X: mxLit(gen.I32, int64(10+k))}}, Else: []gen.Stmt{&gen.Print{X: mxLit(gen.I32, int64(20+k))}}})
			}
		}
		return &gen.Func{Name: name, Params: []gen.Param{{Name: "a", T: t}, {Name: "b", T: t}}, Ret: gen.TVoid, Body: body}
	}
	arith := mk("arith", []string{"+", "-", "*"}, true)
	divs := mk("divs", []string{"/", "%"}, false)
	p.Funcs = append(p.Funcs, id, arith, divs)
	vals := mxBoundary(t)
	if len(vals) > 9 {
		vals = vals[:9]
	}
	k := 0
	for _, av := range vals {
		for _, bv := range vals {
			k++
			an, bn := fmt.Sprintf("a%d", k), fmt.Sprintf("b%d", k)
			p.Main = append(p.Main,
				&gen.Let{Name: an, T: t, Init: &gen.Call{Fn: id, Args: []gen.Expr{mxLit(t, av)}}, Annot: true},
				&gen.Let{Name: bn, T: t, Init: &gen.Call{Fn: id, Args: []gen.Expr{mxLit(t, bv)}}, Annot: true},
				&gen.ExprStmt{X: &gen.Call{Fn: arith, Args: []gen.Expr{&gen.Var{Name: an, T: t}, &gen.Var{Name: bn, T: t}}}})
			nb := gen.Norm(t, bv)
			if nb != 0 && !(t.Signed && nb == -1 && t.Bits >= 32) {
				p.Main = append(p.Main, &gen.ExprStmt{X: &gen.Call{Fn: divs, Args: []gen.Expr{&gen.Var{Name: an, T: t}, &gen.Var{Name: bn, T: t}}}})
			}
		}
	}
	return p
}

// mxLiteralOps: run-time left operands (boundary values, negatives that are not multiples of the
// right operand) against LITERAL right operands — powers of two, their neighbours, negative
// powers of two, 1, 10, the type's extremes — for * / % + -, where a back end may pick a cheaper
// instruction sequence for the constant (shift for division, mask for remainder, lea for multiply).
func mxLiteralOps(t *gen.Type) *gen.Program {
	p := &gen.Program{Features: map[string]bool{}}
	id := mxIdent(t)
	p.Funcs = append(p.Funcs, id)
	bits := uint(t.Bits)
	var rights []int64
	for _, k := range []uint{0, 1, 2, 3, 4, 6, 7, 8, 15, 16, 31, 32, 62} {
		if k < bits-1 || (!t.Signed && k < bits) {
			rights = append(rights, int64(1)<<k)
			if t.Signed && k > 0 {
				rights = append(rights, -(int64(1) << k))
			}
		}
	}
	rights = append(rights, 3, 5, 7, 10, 100)
	lefts := []int64{0, 1, 2, 7, 13, 100, 127}
	if t.Signed {
		lefts = append(lefts, -1, -2, -7, -13, -100, -128)
	}
	for _, v := range mxBoundary(t)[:6] {
		lefts = append(lefts, v)
	}
	a := &gen.Var{Name: "a", T: t}
	var fns []*gen.Func
	for ri, rv := range rights {
		if gen.Norm(t, rv) != rv || rv == 0 {
			continue
		}
		var body []gen.Stmt
		n := 0
		for _, op := range []string{"/", "%", "*", "+", "-"} {
			if (op == "/" || op == "%") && t.Signed && rv == -1 {
				continue
			}
			n++
			body = append(body, mxPrintLet(fmt.Sprintf("r%d", n), t, &gen.Bin{Op: op, L: a, R: mxLit(t, rv), T: t})...)
		}
		// the quotient multiplied back, inside one expression
		n++
		body = append(body, mxPrintLet(fmt.Sprintf("r%d", n), t, &gen.Bin{Op: "*", L: &gen.Bin{Op: "/", L: a, R: mxLit(t, rv), T: t}, R: mxLit(t, rv), T: t})...)
		f := &gen.Func{Name: fmt.Sprintf("by%d", ri), Params: []gen.Param{{Name: "a", T: t}}, Ret: gen.TVoid, Body: body}
		fns = append(fns, f)
		p.Funcs = append(p.Funcs, f)
	}
	k := 0
	for _, lv := range lefts {
		if gen.Norm(t, lv) != lv {
			continue
		}
		k++
		an := fmt.Sprintf("a%d", k)
		p.Main = append(p.Main, &gen.Let{Name: an, T: t, Init: &gen.Call{Fn: id, Args: []gen.Expr{mxLit(t, lv)}}, Annot: true})
		for _, f := range fns {
			p.Main = append(p.Main, &gen.ExprStmt{X: &gen.Call{Fn: f, Args: []gen.Expr{&gen.Var{Name: an, T: t}}}})
		}
	}
	return p
}

// mxParams: parameters touched first (or reassigned) away from the entry block of the callee.
func mxParams() *gen.Program {
	I16, I32, I64 := gen.I16, gen.I32, gen.I64
	p := &gen.Program{Features: map[string]bool{}}
	arr3 := &gen.Type{K: gen.KArr, N: 3, Elem: I16}
	st := &gen.Type{K: gen.KStruct, Name: "Acc", Fields: []gen.Field{{Name: "A", T: I32}, {Name: "B", T: I64}, {Name: "C", T: arr3}}}
	buf := &gen.Type{K: gen.KArr, N: 3, Elem: I32}
	p.Types = append(p.Types, st)
	lit := mxLit
	v := func(n string, t *gen.Type) *gen.Var { return &gen.Var{Name: n, T: t} }
	fld := func(x gen.Expr, n string, t *gen.Type) *gen.FieldX { return &gen.FieldX{X: x, Name: n, T: t} }
	add := func(l, r gen.Expr, t *gen.Type) *gen.Bin { return &gen.Bin{Op: "+", L: l, R: r, T: t} }
	lt := func(l, r gen.Expr) *gen.Bin { return &gen.Bin{Op: "<", L: l, R: r, T: gen.TBool} }
	gt := func(l, r gen.Expr) *gen.Bin { return &gen.Bin{Op: ">", L: l, R: r, T: gen.TBool} }
	s := v("s", st)
	// scalar parameter reassigned in a loop whose condition reads it
	count := &gen.Func{Name: "count", Params: []gen.Param{{Name: "n", T: I32}}, Ret: I32, Body: []gen.Stmt{
		&gen.Let{Name: "c", T: I32, Init: lit(I32, 0), Annot: true},
		&gen.While{Cond: gt(v("n", I32), lit(I32, 0)), Body: []gen.Stmt{
			&gen.Assign{LHS: v("n", I32), Op: "=", RHS: &gen.Bin{Op: "-", L: v("n", I32), R: lit(I32, 1), T: I32}},
			&gen.Assign{LHS: v("c", I32), Op: "=", RHS: add(v("c", I32), lit(I32, 1), I32)}}},
		&gen.Return{X: add(&gen.Bin{Op: "*", L: v("c", I32), R: lit(I32, 100), T: I32}, v("n", I32), I32)}}}
	// scalar parameter read before and reassigned inside one branch
	clamp := &gen.Func{Name: "clamp", Params: []gen.Param{{Name: "x", T: I64}, {Name: "hi", T: I64}}, Ret: I64, Body: []gen.Stmt{
		&gen.Let{Name: "before", T: I64, Init: v("x", I64), Annot: true},
		&gen.If{Cond: gt(v("x", I64), v("hi", I64)), Then: []gen.Stmt{&gen.Assign{LHS: v("x", I64), Op: "=", RHS: v("hi", I64)}}},
		&gen.Return{X: add(&gen.Bin{Op: "*", L: v("x", I64), R: lit(I64, 1000), T: I64}, v("before", I64), I64)}}}
	// scalar parameter used as loop variable through compound assignment and ++
	steps := &gen.Func{Name: "steps", Params: []gen.Param{{Name: "k", T: I16}, {Name: "lim", T: I16}}, Ret: I16, Body: []gen.Stmt{
		&gen.Let{Name: "t", T: I16, Init: lit(I16, 0), Annot: true},
		&gen.While{Cond: lt(v("k", I16), v("lim", I16)), Body: []gen.Stmt{
			&gen.Assign{LHS: v("t", I16), Op: "+=", RHS: v("k", I16)},
			&gen.If{Cond: gt(v("k", I16), lit(I16, 2)), Then: []gen.Stmt{&gen.Assign{LHS: v("k", I16), Op: "+=", RHS: lit(I16, 2)}}, Else: []gen.Stmt{&gen.IncDec{X: v("k", I16), Inc: true}}}}},
		&gen.Return{X: add(v("t", I16), v("k", I16), I16)}}}
	// by-value struct first written inside a loop
	addAll := &gen.Func{Name: "addAll", Params: []gen.Param{{Name: "s", T: st}, {Name: "n", T: I32}}, Ret: I64, Body: []gen.Stmt{
		&gen.Let{Name: "k", T: I32, Init: lit(I32, 0), Annot: true},
		&gen.While{Cond: lt(v("k", I32), v("n", I32)), Body: []gen.Stmt{
			&gen.Assign{LHS: fld(s, "A", I32), Op: "=", RHS: add(fld(s, "A", I32), v("k", I32), I32)},
			&gen.Assign{LHS: fld(s, "B", I64), Op: "+=", RHS: lit(I64, 1000)},
			&gen.Assign{LHS: v("k", I32), Op: "=", RHS: add(v("k", I32), lit(I32, 1), I32)}}},
		&gen.Return{X: add(&gen.Cast{X: fld(s, "A", I32), T: I64}, fld(s, "B", I64), I64)}}}
	// by-value struct first written inside one branch, read after the join
	reset := &gen.Func{Name: "reset", Params: []gen.Param{{Name: "s", T: st}, {Name: "f", T: gen.TBool}}, Ret: I64, Body: []gen.Stmt{
		&gen.If{Cond: v("f", gen.TBool), Then: []gen.Stmt{&gen.Assign{LHS: fld(s, "A", I32), Op: "=", RHS: lit(I32, 0)}}},
		&gen.Return{X: add(&gen.Cast{X: fld(s, "A", I32), T: I64}, fld(s, "B", I64), I64)}}}
	// by-value struct first touched inside a match arm
	pick := &gen.Func{Name: "pick", Params: []gen.Param{{Name: "s", T: st}, {Name: "sel", T: I32}}, Ret: I64, Body: []gen.Stmt{
		&gen.Let{Name: "r", T: I64, Init: lit(I64, -1), Annot: true},
		&gen.Match{Subj: v("sel", I32), HasDef: true,
			Arms: []gen.MatchArm{
				{Pat: lit(I32, 0), Body: []gen.Stmt{&gen.Assign{LHS: fld(s, "B", I64), Op: "=", RHS: lit(I64, 5)}, &gen.Assign{LHS: v("r", I64), Op: "=", RHS: fld(s, "B", I64)}}},
				{Pat: lit(I32, 1), Body: []gen.Stmt{&gen.Assign{LHS: v("r", I64), Op: "=", RHS: &gen.Cast{X: &gen.Index{X: fld(s, "C", arr3), I: lit(I32, 2), T: I16}, T: I64}}}}},
			Default: []gen.Stmt{}},
		&gen.Return{X: add(v("r", I64), &gen.Cast{X: fld(s, "A", I32), T: I64}, I64)}}}
	// by-value fixed array written in a loop
	fill := &gen.Func{Name: "fill", Params: []gen.Param{{Name: "b", T: buf}, {Name: "n", T: I32}}, Ret: I32, Body: []gen.Stmt{
		&gen.Let{Name: "k", T: I32, Init: lit(I32, 0), Annot: true},
		&gen.While{Cond: lt(v("k", I32), v("n", I32)), Body: []gen.Stmt{
			&gen.Assign{LHS: &gen.Index{X: v("b", buf), I: lit(I32, 0), T: I32}, Op: "=", RHS: add(&gen.Index{X: v("b", buf), I: lit(I32, 0), T: I32}, lit(I32, 10), I32)},
			&gen.Assign{LHS: &gen.Index{X: v("b", buf), I: lit(I32, -1), T: I32}, Op: "=", RHS: add(&gen.Index{X: v("b", buf), I: lit(I32, 2), T: I32}, v("k", I32), I32)},
			&gen.Assign{LHS: v("k", I32), Op: "=", RHS: add(v("k", I32), lit(I32, 1), I32)}}},
		&gen.Return{X: add(add(&gen.Index{X: v("b", buf), I: lit(I32, 0), T: I32}, &gen.Index{X: v("b", buf), I: lit(I32, 1), T: I32}, I32), &gen.Index{X: v("b", buf), I: lit(I32, 2), T: I32}, I32)}}}
	// writes through a mutable reference whose value has a narrower static type
	r64 := &gen.Type{K: gen.KRef, Elem: I64, Mut: true}
	put := &gen.Func{Name: "put", Params: []gen.Param{{Name: "r", T: r64}, {Name: "x", T: I32}}, Ret: gen.TVoid, Body: []gen.Stmt{
		&gen.Assign{LHS: v("r", r64), Op: "=", RHS: v("x", I32)}}}
	put8 := &gen.Func{Name: "put8", Params: []gen.Param{{Name: "r", T: r64}, {Name: "x", T: gen.I8}}, Ret: gen.TVoid, Body: []gen.Stmt{
		&gen.Assign{LHS: v("r", r64), Op: "=", RHS: v("x", gen.I8)}}}
	p.Funcs = append(p.Funcs, count, clamp, steps, addAll, reset, pick, fill, put, put8)

	m := []gen.Stmt{}
	pr := func(name string, t *gen.Type, e gen.Expr) { m = append(m, mxPrintLet(name, t, e)...) }
	call := func(f *gen.Func, args ...gen.Expr) *gen.Call { return &gen.Call{Fn: f, Args: args} }
	pr("t1", I32, call(count, lit(I32, 3)))
	pr("t2", I32, call(count, lit(I32, 0)))
	pr("t3", I64, call(clamp, lit(I64, 50), lit(I64, 9)))
	pr("t4", I64, call(clamp, lit(I64, 5), lit(I64, 9)))
	pr("t5", I16, call(steps, lit(I16, 0), lit(I16, 9)))
	pr("t6", I16, call(steps, lit(I16, 7), lit(I16, 3)))
	m = append(m, &gen.Let{Name: "acc", T: st, Annot: true, Init: &gen.StructLit{T: st, Vals: []gen.Expr{lit(I32, 100), lit(I64, 10000), &gen.ArrLit{T: arr3, Elems: []gen.Expr{lit(I16, 7), lit(I16, 8), lit(I16, 9)}}}}})
	acc := v("acc", st)
	pr("t7", I64, call(addAll, acc, lit(I32, 4)))
	pr("t8", I64, call(addAll, acc, lit(I32, 0)))
	pr("t9", I64, call(reset, acc, &gen.Lit{T: gen.TBool, I: 0}))
	pr("t10", I64, call(reset, acc, &gen.Lit{T: gen.TBool, I: 1}))
	pr("t11", I64, call(pick, acc, lit(I32, 0)))
	pr("t12", I64, call(pick, acc, lit(I32, 1)))
	pr("t13", I64, call(pick, acc, lit(I32, 2)))
	pr("t14", I32, fld(acc, "A", I32))
	pr("t15", I64, fld(acc, "B", I64))
	pr("t16", I16, &gen.Index{X: fld(acc, "C", arr3), I: lit(I32, 2), T: I16})
	m = append(m, &gen.Let{Name: "bf", T: buf, Annot: true, Init: &gen.ArrLit{T: buf, Elems: []gen.Expr{lit(I32, 1), lit(I32, 2), lit(I32, 3)}}})
	pr("t17", I32, call(fill, v("bf", buf), lit(I32, 3)))
	pr("t18", I32, call(fill, v("bf", buf), lit(I32, 0)))
	pr("t19", I32, &gen.Index{X: v("bf", buf), I: lit(I32, 0), T: I32})
	pr("t20", I32, &gen.Index{X: v("bf", buf), I: lit(I32, 2), T: I32})
	m = append(m, &gen.Let{Name: "w", T: I64, Init: lit(I64, 0x1122334455667788), Annot: false})
	m = append(m, &gen.ExprStmt{X: call(put, &gen.Borrow{Mut: true, X: v("w", I64)}, lit(I32, -7))}, &gen.Print{X: v("w", I64)})
	m = append(m, &gen.Assign{LHS: v("w", I64), Op: "=", RHS: lit(I64, -1)})
	m = append(m, &gen.ExprStmt{X: call(put8, &gen.Borrow{Mut: true, X: v("w", I64)}, lit(gen.I8, 5))}, &gen.Print{X: v("w", I64)})
	m = append(m, &gen.ExprStmt{X: call(put, &gen.Borrow{Mut: true, X: fld(acc, "B", I64)}, lit(I32, -3))}, &gen.Print{X: fld(acc, "B", I64)})
	p.Main = m
	return p
}

func matrixPrograms() []matrixProg {
	var out []matrixProg
	for _, t := range gen.IntTypes {
		out = append(out, matrixProg{name: "casts-from-" + t.String(), p: mxCasts(t), wasmOK: true})
	}
	for _, t := range gen.IntTypes {
		out = append(out, matrixProg{name: "ops-" + t.String(), p: mxOps(t), wasmOK: true})
	}
	for _, t := range gen.IntTypes {
		out = append(out, matrixProg{name: "literal-operands-" + t.String(), p: mxLiteralOps(t), wasmOK: true})
	}
	out = append(out, matrixProg{name: "params", p: mxParams(), wasmOK: true})
	out = append(out, matrixProg{name: "write-through", p: mxWriteThrough(), wasmOK: true})
	out = append(out, matrixProg{name: "const-flow", p: mxConstFlow(), wasmOK: true})
	out = append(out, matrixProg{name: "ranges", p: mxRanges(), wasmOK: true})
	out = append(out, matrixProg{name: "stale-constants", p: mxStaleConstants(), wasmOK: true})
	out = append(out, matrixProg{name: "self-referential-assignment", p: mxSelfAssign(), wasmOK: true})
	out = append(out, matrixProg{name: "dynamic-array-growth", p: mxDynGrowth(), wasmOK: true})
	return out
}

// mxDynGrowth: dynamic arrays that start from a literal and grow — by append, by a longer literal,
// inside loops — and are then read through compile-time-known indices at positions that exist only
// because of the growth (also negative indices counted from the new end), for several element types.
func mxDynGrowth() *gen.Program {
	I32 := gen.I32
	p := &gen.Program{Features: map[string]bool{}}
	var m []gen.Stmt
	n := 0
	for ti, et := range []*gen.Type{gen.I32, gen.I64, gen.U8, gen.I16} {
		dt := &gen.Type{K: gen.KDyn, Elem: et}
		name := fmt.Sprintf("xs%d", ti)
		xs := &gen.Var{Name: name, T: dt}
		lit3 := &gen.ArrLit{T: dt, Elems: []gen.Expr{mxLit(et, 1), mxLit(et, 2), mxLit(et, 3)}}
		m = append(m, &gen.Let{Name: name, T: dt, Init: lit3, Annot: true})
		rd := func(k int64) {
			n++
			m = append(m, mxPrintLet(fmt.Sprintf("r%d", n), et, &gen.Index{X: xs, I: mxLit(I32, k), T: et})...)
		}
		rd(2)
		m = append(m, &gen.Append{Arr: xs, Val: mxLit(et, 40)})
		rd(3)
		rd(-1)
		m = append(m, &gen.Append{Arr: xs, Val: mxLit(et, 50)}, &gen.Append{Arr: xs, Val: mxLit(et, 60)})
		rd(5)
		rd(-6)
		// a longer literal replaces the array
		lit8 := &gen.ArrLit{T: dt}
		for k := 0; k < 8; k++ {
			lit8.Elems = append(lit8.Elems, mxLit(et, int64(70+k)))
		}
		m = append(m, &gen.Assign{LHS: xs, Op: "=", RHS: lit8})
		rd(7)
		rd(-8)
		// a shorter literal, then growth in a loop
		m = append(m, &gen.Assign{LHS: xs, Op: "=", RHS: &gen.ArrLit{T: dt, Elems: []gen.Expr{mxLit(et, 9)}}})
		c := fmt.Sprintf("gi%d", ti)
		cv := &gen.Var{Name: c, T: I32}
		m = append(m, &gen.Let{Name: c, T: I32, Init: mxLit(I32, 0), Annot: true},
			&gen.While{Cond: &gen.Bin{Op: "<", L: cv, R: mxLit(I32, 4), T: gen.TBool}, Body: []gen.Stmt{
				&gen.Append{Arr: xs, Val: &gen.Cast{X: &gen.Bin{Op: "+", L: cv, R: mxLit(I32, 10), T: I32}, T: et}},
				&gen.Assign{LHS: cv, Op: "=", RHS: &gen.Bin{Op: "+", L: cv, R: mxLit(I32, 1), T: I32}}}})
		rd(4)
		rd(-5)
		n++
		m = append(m, mxPrintLet(fmt.Sprintf("len%d", n), I32, &gen.Len{X: xs})...)
	}
	p.Main = m
	return p
}

// mxSelfAssign: aggregates assigned from a literal whose components read the destination itself
// (swap, rotate, Fibonacci step, reverse): the right-hand side is evaluated completely before any
// part of the destination changes (by-value semantics). Structs, a struct held in a struct, fixed
// arrays, element-wise and whole, in main and inside a function working on its by-value parameter.
func mxSelfAssign() *gen.Program {
	I32, I64 := gen.I32, gen.I64
	p := &gen.Program{Features: map[string]bool{}}
	pair := &gen.Type{K: gen.KStruct, Name: "Pr", Fields: []gen.Field{{Name: "A", T: I64}, {Name: "B", T: I64}}}
	tri := &gen.Type{K: gen.KStruct, Name: "Tr", Fields: []gen.Field{{Name: "X", T: I32}, {Name: "Y", T: I32}, {Name: "Z", T: I32}}}
	box := &gen.Type{K: gen.KStruct, Name: "Bx", Fields: []gen.Field{{Name: "Pos", T: tri}, {Name: "N", T: I32}}}
	arrT := &gen.Type{K: gen.KArr, N: 4, Elem: I32}
	p.Types = []*gen.Type{pair, tri, box}
	fx := func(x gen.Expr, n string, t *gen.Type) gen.Expr { return &gen.FieldX{X: x, Name: n, T: t} }
	var m []gen.Stmt
	dumpPair := func(v gen.Expr, tag string) {
		m = append(m, mxPrintLet("pa"+tag, I64, fx(v, "A", I64))...)
		m = append(m, mxPrintLet("pb"+tag, I64, fx(v, "B", I64))...)
	}
	dumpTri := func(v gen.Expr, tag string) {
		for _, f := range []string{"X", "Y", "Z"} {
			m = append(m, mxPrintLet("t"+f+tag, I32, fx(v, f, I32))...)
		}
	}
	// Fibonacci by pair assignment
	s := &gen.Var{Name: "s", T: pair}
	m = append(m, &gen.Let{Name: "s", T: pair, Init: &gen.StructLit{T: pair, Vals: []gen.Expr{mxLit(I64, 0), mxLit(I64, 1)}}, Annot: true})
	for k := 0; k < 6; k++ {
		m = append(m, &gen.Assign{LHS: s, Op: "=", RHS: &gen.StructLit{T: pair, Vals: []gen.Expr{fx(s, "B", I64), &gen.Bin{Op: "+", L: fx(s, "A", I64), R: fx(s, "B", I64), T: I64}}}})
		dumpPair(s, fmt.Sprintf("%d", k))
	}
	// swap written in the other field order
	m = append(m, &gen.Assign{LHS: s, Op: "=", RHS: &gen.StructLit{T: pair, Vals: []gen.Expr{fx(s, "B", I64), fx(s, "A", I64)}}})
	dumpPair(s, "sw")
	// rotation of three fields
	v := &gen.Var{Name: "v", T: tri}
	m = append(m, &gen.Let{Name: "v", T: tri, Init: &gen.StructLit{T: tri, Vals: []gen.Expr{mxLit(I32, 1), mxLit(I32, 2), mxLit(I32, 3)}}, Annot: true})
	for k := 0; k < 2; k++ {
		m = append(m, &gen.Assign{LHS: v, Op: "=", RHS: &gen.StructLit{T: tri, Vals: []gen.Expr{fx(v, "Y", I32), fx(v, "Z", I32), fx(v, "X", I32)}}})
		dumpTri(v, fmt.Sprintf("r%d", k))
	}
	// a struct held in a struct
	b := &gen.Var{Name: "bx", T: box}
	m = append(m, &gen.Let{Name: "bx", T: box, Init: &gen.StructLit{T: box, Vals: []gen.Expr{&gen.StructLit{T: tri, Vals: []gen.Expr{mxLit(I32, 10), mxLit(I32, 20), mxLit(I32, 30)}}, mxLit(I32, 7)}}, Annot: true})
	bp := fx(b, "Pos", tri)
	m = append(m, &gen.Assign{LHS: bp, Op: "=", RHS: &gen.StructLit{T: tri, Vals: []gen.Expr{fx(bp, "Z", I32), fx(bp, "X", I32), &gen.Bin{Op: "+", L: fx(bp, "Y", I32), R: fx(b, "N", I32), T: I32}}}})
	dumpTri(bp, "bx")
	m = append(m, mxPrintLet("bn", I32, fx(b, "N", I32))...)
	// fixed array reversed and shifted through a literal
	a := &gen.Var{Name: "a", T: arrT}
	at := func(k int64) gen.Expr { return &gen.Index{X: a, I: mxLit(I32, k), T: I32} }
	m = append(m, &gen.Let{Name: "a", T: arrT, Init: &gen.ArrLit{T: arrT, Elems: []gen.Expr{mxLit(I32, 1), mxLit(I32, 2), mxLit(I32, 3), mxLit(I32, 4)}}, Annot: true})
	m = append(m, &gen.Assign{LHS: a, Op: "=", RHS: &gen.ArrLit{T: arrT, Elems: []gen.Expr{at(3), at(2), at(1), at(0)}}})
	for k := int64(0); k < 4; k++ {
		m = append(m, mxPrintLet(fmt.Sprintf("ar%d", k), I32, at(k))...)
	}
	m = append(m, &gen.Assign{LHS: a, Op: "=", RHS: &gen.ArrLit{T: arrT, Elems: []gen.Expr{at(1), at(2), at(3), &gen.Bin{Op: "+", L: at(0), R: at(1), T: I32}}}})
	for k := int64(0); k < 4; k++ {
		m = append(m, mxPrintLet(fmt.Sprintf("as%d", k), I32, at(k))...)
	}
	// the same inside a function, on its by-value parameter
	q := &gen.Var{Name: "q", T: pair}
	step := &gen.Func{Name: "step", Params: []gen.Param{{Name: "q", T: pair}, {Name: "n", T: I32}}, Ret: I64, Body: []gen.Stmt{
		&gen.Let{Name: "k", T: I32, Init: mxLit(I32, 0), Annot: true},
		&gen.While{Cond: &gen.Bin{Op: "<", L: &gen.Var{Name: "k", T: I32}, R: &gen.Var{Name: "n", T: I32}, T: gen.TBool}, Body: []gen.Stmt{
			&gen.Assign{LHS: q, Op: "=", RHS: &gen.StructLit{T: pair, Vals: []gen.Expr{fx(q, "B", I64), &gen.Bin{Op: "+", L: fx(q, "A", I64), R: fx(q, "B", I64), T: I64}}}},
			&gen.Assign{LHS: &gen.Var{Name: "k", T: I32}, Op: "=", RHS: &gen.Bin{Op: "+", L: &gen.Var{Name: "k", T: I32}, R: mxLit(I32, 1), T: I32}}}},
		&gen.Return{X: fx(q, "A", I64)}}}
	p.Funcs = append(p.Funcs, step)
	m = append(m, &gen.Let{Name: "seed", T: pair, Init: &gen.StructLit{T: pair, Vals: []gen.Expr{mxLit(I64, 0), mxLit(I64, 1)}}, Annot: true})
	for _, n := range []int64{10, 50} {
		m = append(m, mxPrintLet(fmt.Sprintf("fib%d", n), I64, &gen.Call{Fn: step, Args: []gen.Expr{&gen.Var{Name: "seed", T: pair}, mxLit(I32, n)}})...)
	}
	dumpPair(&gen.Var{Name: "seed", T: pair}, "seed")
	p.Main = m
	return p
}

// mxStaleConstants: locals with a constant initialiser that are tested (if / else-if / while / match
// / as an operand) and LATER reassigned to a different constant on the straight-line path, in a
// branch, or in a loop — and tested again. A decision taken from the value a variable has at the
// end of the function (or at its declaration) instead of at the test shows up as a wrong line.
func mxStaleConstants() *gen.Program {
	I32 := gen.I32
	p := &gen.Program{Features: map[string]bool{}}
	var m []gen.Stmt
	n := 0
	pr := func(v int64) gen.Stmt { return &gen.Print{X: mxLit(I32, v)} }
	for _, t := range []*gen.Type{gen.I32, gen.I64, gen.U8, gen.TBool} {
		for variant := 0; variant < 4; variant++ {
			n++
			name := fmt.Sprintf("lv%d", n)
			v := &gen.Var{Name: name, T: t}
			one, two := mxLit(t, 1), mxLit(t, 2)
			var isOne func() gen.Expr
			if t.K == gen.KBool {
				one, two = &gen.Lit{T: gen.TBool, I: 1}, &gen.Lit{T: gen.TBool, I: 0}
				isOne = func() gen.Expr { return v }
			} else {
				isOne = func() gen.Expr { return &gen.Bin{Op: "==", L: v, R: mxLit(t, 1), T: gen.TBool} }
			}
			test := func(tag int64) gen.Stmt {
				return &gen.If{Cond: isOne(), Then: []gen.Stmt{pr(tag*10 + 1)}, Else: []gen.Stmt{pr(tag*10 + 2)}}
			}
			m = append(m, &gen.Let{Name: name, T: t, Init: one, Annot: variant%2 == 0 || (t != gen.I32 && t.K != gen.KBool)})
			m = append(m, test(int64(n)*10+1))
			switch variant {
			case 0: // straight-line reassignment
				m = append(m, &gen.Assign{LHS: v, Op: "=", RHS: two})
			case 1: // reassignment inside a taken branch
				m = append(m, &gen.If{Cond: &gen.Lit{T: gen.TBool, I: 1}, Then: []gen.Stmt{&gen.Assign{LHS: v, Op: "=", RHS: two}}})
			case 2: // reassignment inside a loop that runs once
				c := fmt.Sprintf("it%d", n)
				cv := &gen.Var{Name: c, T: I32}
				m = append(m, &gen.Let{Name: c, T: I32, Init: mxLit(I32, 0), Annot: true},
					&gen.While{Cond: &gen.Bin{Op: "<", L: cv, R: mxLit(I32, 1), T: gen.TBool}, Body: []gen.Stmt{&gen.Assign{LHS: v, Op: "=", RHS: two}, &gen.Assign{LHS: cv, Op: "=", RHS: &gen.Bin{Op: "+", L: cv, R: mxLit(I32, 1), T: I32}}}})
			default: // two reassignments: to the other value and back
				m = append(m, &gen.Assign{LHS: v, Op: "=", RHS: two}, test(int64(n)*10+5), &gen.Assign{LHS: v, Op: "=", RHS: one})
			}
			m = append(m, test(int64(n)*10+2))
			if t.K != gen.KBool {
				// the same variable as a match subject, a loop bound and an operand, before a further change
				m = append(m, &gen.Match{Subj: v, HasDef: true, Arms: []gen.MatchArm{{Pat: mxLit(t, 1), Body: []gen.Stmt{pr(int64(n)*100 + 31)}}, {Pat: mxLit(t, 2), Body: []gen.Stmt{pr(int64(n)*100 + 32)}}}, Default: []gen.Stmt{pr(int64(n)*100 + 33)}})
				m = append(m, mxPrintLet(fmt.Sprintf("e%d", n), t, &gen.Bin{Op: "*", L: v, R: mxLit(t, 7), T: t})...)
				m = append(m, &gen.Assign{LHS: v, Op: "=", RHS: mxLit(t, 5)})
				m = append(m, mxPrintLet(fmt.Sprintf("g%d", n), t, &gen.Bin{Op: "*", L: v, R: mxLit(t, 7), T: t})...)
				m = append(m, &gen.Match{Subj: v, HasDef: true, Arms: []gen.MatchArm{{Pat: mxLit(t, 1), Body: []gen.Stmt{pr(int64(n)*100 + 41)}}, {Pat: mxLit(t, 5), Body: []gen.Stmt{pr(int64(n)*100 + 45)}}}, Default: []gen.Stmt{pr(int64(n)*100 + 43)}})
			}
		}
	}
	p.Main = m
	return p
}

// mxRanges: stepped and plain range loops `for v in a..b[:s]` / `a..=b[:s]` over six integer
// types, counting up and down, with small spans and with spans (and span x step products) beyond
// half of the type's range, the end on and between the visited values, and with the three
// operands given as literals, as let-bound locals, or through opaque identity functions (so the
// sign of the step is only known at run time). Every loop prints the values it visits and how many.
func mxRanges() *gen.Program {
	p := &gen.Program{Features: map[string]bool{}}
	var m []gen.Stmt
	n := 0
	idf := map[string]*gen.Func{}
	for _, t := range []*gen.Type{gen.I8, gen.I16, gen.I32, gen.I64, gen.U8, gen.U32} {
		f := mxIdent(t)
		idf[t.String()] = f
		p.Funcs = append(p.Funcs, f)
	}
	cnt := &gen.Var{Name: "cnt", T: gen.I32}
	m = append(m, &gen.Let{Name: "cnt", T: gen.I32, Init: mxLit(gen.I32, 0), Annot: true})
	loop := func(t *gen.Type, start, end, step int64, hasStep, incl bool, form int) {
		n++
		var pre []gen.Stmt
		opnd := func(tag string, v int64) gen.Expr {
			switch form {
			case 1:
				name := fmt.Sprintf("%s%d", tag, n)
				pre = append(pre, &gen.Let{Name: name, T: t, Init: mxLit(t, v), Annot: true})
				return &gen.Var{Name: name, T: t}
			case 2:
				return &gen.Call{Fn: idf[t.String()], Args: []gen.Expr{mxLit(t, v)}}
			}
			return mxLit(t, v)
		}
		fr := &gen.ForRange{Var: fmt.Sprintf("v%d", n), T: t, Lo: opnd("lo", start), Hi: opnd("hi", end), Incl: incl}
		if hasStep {
			fr.Step = opnd("st", step)
		}
		vv := &gen.Var{Name: fr.Var, T: t}
		fr.Body = []gen.Stmt{&gen.Print{X: vv}, &gen.Assign{LHS: cnt, Op: "=", RHS: &gen.Bin{Op: "+", L: cnt, R: mxLit(gen.I32, 1), T: gen.I32}}}
		m = append(m, pre...)
		m = append(m, fr, &gen.Print{X: cnt})
	}
	form := 0
	for _, t := range []*gen.Type{gen.I8, gen.I16, gen.I32, gen.I64, gen.U8, gen.U32} {
		bits := uint(t.Bits)
		var min, max int64
		if t.Signed {
			min, max = -(int64(1) << (bits - 1)), (int64(1)<<(bits-1))-1
		} else {
			min, max = 0, (int64(1)<<bits)-1
		}
		// plain loops (no step)
		loop(t, 2, 6, 1, false, false, form%3)
		form++
		loop(t, 2, 6, 1, false, true, form%3)
		form++
		loop(t, 5, 5, 1, false, false, form%3) // empty
		form++
		for _, up := range []bool{true, false} {
			if !up && !t.Signed {
				continue
			}
			for _, large := range []bool{false, true} {
				for _, incl := range []bool{false, true} {
					for _, endOn := range []bool{true, false} {
						k := int64(3) // iterations
						step := int64(3)
						start := int64(1)
						if large {
							step = (max/2 - min/2) / (k + 1) // k*step exceeds a quarter of the range; (end-start)*step overflows
							start = min + 5
							if !up {
								start = max - 5
							}
						} else if !up {
							start = 20
						}
						if !up {
							step = -step
						}
						last := start + step*(k-1)
						end := last
						switch {
						case incl && endOn:
						case incl && !endOn:
							if up {
								end = last + 1
							} else {
								end = last - 1
							}
						case !incl && endOn: // exclusive end exactly on the next value: it is not visited
							end = last + step
						default:
							if up {
								end = last + 1
							} else {
								end = last - 1
							}
						}
						loop(t, start, end, step, true, incl, form%3)
						form++
					}
				}
			}
		}
	}
	// the operands are evaluated once: a body that reassigns the variable a bound or the step was
	// read from does not change the iteration
	for k, t := range []*gen.Type{gen.I32, gen.I64, gen.I16, gen.U8} {
		n++
		lo, hi, st := fmt.Sprintf("mlo%d", n), fmt.Sprintf("mhi%d", n), fmt.Sprintf("mst%d", n)
		lov, hiv, stv := &gen.Var{Name: lo, T: t}, &gen.Var{Name: hi, T: t}, &gen.Var{Name: st, T: t}
		m = append(m, &gen.Let{Name: lo, T: t, Init: mxLit(t, 1), Annot: true}, &gen.Let{Name: hi, T: t, Init: mxLit(t, 9), Annot: true}, &gen.Let{Name: st, T: t, Init: mxLit(t, 2), Annot: true})
		vv := &gen.Var{Name: fmt.Sprintf("mv%d", n), T: t}
		var body []gen.Stmt
		body = append(body, &gen.Print{X: vv})
		switch k % 4 {
		case 0:
			body = append(body, &gen.Assign{LHS: hiv, Op: "=", RHS: &gen.Bin{Op: "-", L: hiv, R: mxLit(t, 3), T: t}})
		case 1:
			body = append(body, &gen.Assign{LHS: stv, Op: "=", RHS: &gen.Bin{Op: "+", L: stv, R: mxLit(t, 5), T: t}})
		case 2:
			body = append(body, &gen.Assign{LHS: lov, Op: "=", RHS: mxLit(t, 7)}, &gen.Assign{LHS: hiv, Op: "=", RHS: mxLit(t, 2)})
		default:
			body = append(body, &gen.Assign{LHS: hiv, Op: "=", RHS: mxLit(t, 100)}, &gen.Assign{LHS: stv, Op: "=", RHS: mxLit(t, 1)})
		}
		body = append(body, &gen.Assign{LHS: cnt, Op: "=", RHS: &gen.Bin{Op: "+", L: cnt, R: mxLit(gen.I32, 1), T: gen.I32}})
		m = append(m, &gen.ForRange{Var: vv.Name, T: t, Lo: lov, Hi: hiv, Step: stv, Incl: k%2 == 0, Body: body}, &gen.Print{X: cnt}, &gen.Print{X: lov}, &gen.Print{X: hiv}, &gen.Print{X: stv})
		// and a plain loop whose end variable shrinks in the body
		n++
		hi2 := &gen.Var{Name: fmt.Sprintf("mhi%d", n), T: t}
		v2 := &gen.Var{Name: fmt.Sprintf("mv%d", n), T: t}
		m = append(m, &gen.Let{Name: hi2.Name, T: t, Init: mxLit(t, 6), Annot: true},
			&gen.ForRange{Var: v2.Name, T: t, Lo: mxLit(t, 0), Hi: hi2, Body: []gen.Stmt{&gen.Print{X: v2}, &gen.Assign{LHS: hi2, Op: "=", RHS: &gen.Bin{Op: "-", L: hi2, R: mxLit(t, 1), T: t}}}},
			&gen.Print{X: hi2})
	}
	p.Main = m
	return p
}

// mxWriteThrough: writes and reads through references where the static type of the stored value
// is narrower than the referent (implicit lossless widening on the store), on locals, struct
// fields and array elements, plus reads through shared references of every width.
func mxWriteThrough() *gen.Program {
	p := &gen.Program{Features: map[string]bool{}}
	pairs := [][2]*gen.Type{
		{gen.I8, gen.I16}, {gen.I8, gen.I32}, {gen.I8, gen.I64}, {gen.I16, gen.I32}, {gen.I16, gen.I64}, {gen.I32, gen.I64},
		{gen.U8, gen.U16}, {gen.U8, gen.U32}, {gen.U8, gen.U64}, {gen.U16, gen.U32}, {gen.U16, gen.U64}, {gen.U32, gen.U64},
		{gen.U8, gen.I16}, {gen.U8, gen.I32}, {gen.U16, gen.I32}, {gen.U16, gen.I64}, {gen.U32, gen.I64},
		{gen.I32, gen.I32}, {gen.U64, gen.U64}, {gen.I8, gen.I8},
	}
	st := &gen.Type{K: gen.KStruct, Name: "Cell", Fields: []gen.Field{{Name: "Lo", T: gen.I64}, {Name: "V", T: gen.I64}, {Name: "Hi", T: gen.I64}}}
	p.Types = append(p.Types, st)
	var m []gen.Stmt
	n := 0
	for _, pr := range pairs {
		s, t := pr[0], pr[1]
		rt := &gen.Type{K: gen.KRef, Elem: t, Mut: true}
		rs := &gen.Type{K: gen.KRef, Elem: t}
		put := &gen.Func{Name: fmt.Sprintf("put_%s_%s", s, t), Params: []gen.Param{{Name: "r", T: rt}, {Name: "x", T: s}}, Ret: gen.TVoid,
			Body: []gen.Stmt{&gen.Assign{LHS: &gen.Var{Name: "r", T: rt}, Op: "=", RHS: &gen.Var{Name: "x", T: s}}}}
		get := &gen.Func{Name: fmt.Sprintf("get_%s_%s", s, t), Params: []gen.Param{{Name: "r", T: rs}}, Ret: t,
			Body: []gen.Stmt{&gen.Return{X: &gen.Var{Name: "r", T: rs}}}}
		p.Funcs = append(p.Funcs, put, get)
		vals := mxBoundary(s)
		for _, k := range []int{0, 3, len(vals) - 1} {
			n++
			w := fmt.Sprintf("w%d", n)
			wv := &gen.Var{Name: w, T: t}
			// the old value has every byte set, so a store narrower than the referent is visible
			m = append(m, &gen.Let{Name: w, T: t, Init: mxLit(t, -2), Annot: true},
				&gen.ExprStmt{X: &gen.Call{Fn: put, Args: []gen.Expr{&gen.Borrow{Mut: true, X: wv}, mxLit(s, vals[k])}}},
				&gen.Print{X: wv})
			m = append(m, mxPrintLet(fmt.Sprintf("g%d", n), t, &gen.Call{Fn: get, Args: []gen.Expr{&gen.Borrow{X: wv}}})...)
		}
	}
	// field between two canary fields, written through a reference with a narrower value
	r64 := &gen.Type{K: gen.KRef, Elem: gen.I64, Mut: true}
	putf := &gen.Func{Name: "putField", Params: []gen.Param{{Name: "r", T: r64}, {Name: "x", T: gen.I16}}, Ret: gen.TVoid,
		Body: []gen.Stmt{&gen.Assign{LHS: &gen.Var{Name: "r", T: r64}, Op: "=", RHS: &gen.Var{Name: "x", T: gen.I16}}}}
	p.Funcs = append(p.Funcs, putf)
	cell := &gen.Var{Name: "cell", T: st}
	m = append(m, &gen.Let{Name: "cell", T: st, Annot: true, Init: &gen.StructLit{T: st, Vals: []gen.Expr{mxLit(gen.I64, 0x1111111111111111), mxLit(gen.I64, -1), mxLit(gen.I64, 0x2222222222222222)}}},
		&gen.ExprStmt{X: &gen.Call{Fn: putf, Args: []gen.Expr{&gen.Borrow{Mut: true, X: &gen.FieldX{X: cell, Name: "V", T: gen.I64}}, mxLit(gen.I16, -300)}}},
		&gen.Print{X: &gen.FieldX{X: cell, Name: "Lo", T: gen.I64}}, &gen.Print{X: &gen.FieldX{X: cell, Name: "V", T: gen.I64}}, &gen.Print{X: &gen.FieldX{X: cell, Name: "Hi", T: gen.I64}},
		&gen.ExprStmt{X: &gen.Call{Fn: putf, Args: []gen.Expr{&gen.Borrow{Mut: true, X: &gen.FieldX{X: cell, Name: "V", T: gen.I64}}, mxLit(gen.I16, 7)}}},
		&gen.Print{X: &gen.FieldX{X: cell, Name: "V", T: gen.I64}})
	p.Main = m
	return p
}

// mxConstFlow: compile-time-known identifiers (const, never-reassigned let) used in arithmetic
// and negations in positions the compiler does not fold (call and print arguments) and then as
// fixed-array indices, loop bounds and operands: evaluating one use early must not change another.
func mxConstFlow() *gen.Program {
	I32 := gen.I32
	p := &gen.Program{Features: map[string]bool{}}
	arrT := &gen.Type{K: gen.KArr, N: 5, Elem: I32}
	show := &gen.Func{Name: "show", Params: []gen.Param{{Name: "x", T: I32}}, Ret: gen.TVoid, Body: []gen.Stmt{&gen.Print{X: &gen.Var{Name: "x", T: I32}}}}
	p.Funcs = append(p.Funcs, show)
	v := func(n string) *gen.Var { return &gen.Var{Name: n, T: I32} }
	neg := func(e gen.Expr) gen.Expr { return &gen.Un{Op: "-", X: e} }
	idx := func(e gen.Expr) gen.Expr { return &gen.Index{X: &gen.Var{Name: "arr", T: arrT}, I: e, T: I32} }
	call := func(e gen.Expr) gen.Stmt { return &gen.ExprStmt{X: &gen.Call{Fn: show, Args: []gen.Expr{e}}} }
	m := []gen.Stmt{
		&gen.Let{Name: "arr", T: arrT, Annot: true, Init: &gen.ArrLit{T: arrT, Elems: []gen.Expr{mxLit(I32, 10), mxLit(I32, 20), mxLit(I32, 30), mxLit(I32, 40), mxLit(I32, 50)}}},
		&gen.Let{Name: "k", T: I32, Init: mxLit(I32, 2), Const: true},
		&gen.Let{Name: "j", T: I32, Init: mxLit(I32, 1), Annot: true},
		&gen.Let{Name: "w", T: I32, Init: mxLit(I32, 3), Annot: true},
		call(neg(v("k"))),
	}
	m = append(m, mxPrintLet("e1", I32, idx(v("k")))...)
	m = append(m, call(neg(v("j"))), &gen.Print{X: neg(v("j"))})
	m = append(m, mxPrintLet("e2", I32, idx(v("j")))...)
	m = append(m, call(&gen.Bin{Op: "-", L: mxLit(I32, 0), R: v("w"), T: I32}), call(&gen.Bin{Op: "*", L: v("w"), R: mxLit(I32, -1), T: I32}))
	m = append(m, mxPrintLet("e3", I32, idx(v("w")))...)
	m = append(m, mxPrintLet("e4", I32, &gen.Bin{Op: "+", L: v("k"), R: &gen.Bin{Op: "*", L: v("j"), R: v("w"), T: I32}, T: I32})...)
	m = append(m, &gen.Print{X: neg(v("k"))}, call(neg(neg(v("k")))))
	m = append(m, mxPrintLet("e5", I32, idx(v("k")))...)
	m = append(m, mxPrintLet("e6", I32, idx(&gen.Bin{Op: "+", L: v("k"), R: v("j"), T: I32}))...)
	// negative constant index after a negation elsewhere
	m = append(m, &gen.Let{Name: "q", T: I32, Init: mxLit(I32, -2), Const: true}, call(neg(v("q"))))
	m = append(m, mxPrintLet("e7", I32, idx(v("q")))...)
	p.Main = m
	return p
}
