package props

import (
	"fmt"
	"strings"

	"verifrig/core"
)

// C12 — visibility by capitalisation across modules and types.
// Verdict monitor by construction over generated multi-module projects: every access names either
// the lowercase (must be rejected) or the uppercase twin (must be accepted) of the same symbol
// in the same syntactic position, so the verdict is attributable to the capitalisation alone.

func init() { register("C12", checkC12) }

const c12Lib = `type Pub struct { .X: i32, .y: i32 };
type hidden struct { .Z: i32 };
type Color enum { Red, Green };
type shade enum { Dark, Light };

const PubC: i32 = 1;
const privC: i32 = 2;
let PubV: i32 = 3;
let privV: i32 = 4;

fn PubF() -> i32 {
    return 1;
}

fn privF() -> i32 {
    return 2;
}

fn MkPub() -> Pub {
    return { .X = 1, .y = 2 } as Pub;
}

fn Mkhidden() -> hidden {
    return { .Z = 1 } as hidden;
}

fn (p: &Pub) GetY() -> i32 {
    return p.y;
}

fn (p: &'Pub) SetY(v: i32) {
    p.y = v;
    p.y += 1;
    p.y++;
}

type Dup struct { .Val: i32, .cnt: i32 };

fn MkDup() -> Dup {
    return { .Val = 1, .cnt = 2 } as Dup;
}

fn (d: &Dup) cnt() -> i32 {
    return d.cnt;
}

fn (d: &Dup) Val() -> i32 {
    return d.Val;
}
`

type c12Shape struct {
	name  string
	alias string
	files func() map[string]string // without main.fer
	imps  string                   // import lines of main.fer
}

var c12Shapes = []c12Shape{
	{"direct", "lib", func() map[string]string { return map[string]string{"lib.fer": c12Lib} },
		"import \"{{PROJ}}/lib\" as lib;\n"},
	{"chain-aliased", "l2", func() map[string]string {
		return map[string]string{"lib.fer": c12Lib,
			"mid.fer": "import \"{{PROJ}}/lib\" as inner;\n\nfn Mid() -> i32 {\n    return inner::PubF() + inner::PubC;\n}\n"}
	}, "import \"{{PROJ}}/mid\" as mid;\nimport \"{{PROJ}}/lib\" as l2;\n"},
	{"diamond-subdir", "deep", func() map[string]string {
		return map[string]string{"pkg/lib.fer": c12Lib,
			"a.fer": "import \"{{PROJ}}/pkg/lib\" as la;\n\nfn A() -> i32 {\n    return la::PubC;\n}\n",
			"b.fer": "import \"{{PROJ}}/pkg/lib\" as lb;\n\nfn B() -> i32 {\n    return lb::PubF();\n}\n"}
	}, "import \"{{PROJ}}/a\" as ma;\nimport \"{{PROJ}}/b\" as mb;\nimport \"{{PROJ}}/pkg/lib\" as deep;\n"},
}

// a site is a piece of main.fer using NAME; top = module-level text, stmt = statement inside a body
type c12Site struct {
	name string
	top  string
	stmt string
}

type c12Sym struct {
	kind  string
	lower string // name of the private twin (after alias::)
	upper string
	sites []c12Site
}

func c12Syms() []c12Sym {
	valueSites := func(call bool) []c12Site {
		n := "NAME"
		if call {
			n = "NAME()"
		}
		s := []c12Site{
			{"let-infer", "", "let a := " + n + ";"},
			{"arith", "", "let a: i32 = " + n + " + 1;"},
			{"argument", "", "takeI(" + n + ");"},
			{"return", "fn give() -> i32 {\n    return " + n + ";\n}\n", "let a := give();"},
			{"condition", "", "if " + n + " > 0 {\n        takeI(1);\n    }"},
			{"array-literal", "", "let arr := [" + n + ", 2];"},
			{"struct-literal-field", "", "let bx: Box = { .F = " + n + " };"},
			{"match-subject", "", "match " + n + " {\n        1 => {\n        }\n        _ => {\n        }\n    }"},
			{"nested-call-arg", "", "takeI(addI(" + n + ", 2));"},
			{"parenthesised", "", "let a: i32 = (" + n + ") * 2;"},
			{"unary-minus", "", "let a: i32 = -" + n + ";"},
			{"cast-operand", "", "let a := " + n + " as i64;"},
			{"range-end", "", "for ii in 0.." + n + " {\n        takeI(ii);\n    }"},
			{"range-start", "", "for ii in " + n + "..9 {\n        takeI(ii);\n    }"},
			{"index-expression", "", "let ar: []i32 = [1, 2, 3, 4, 5, 6, 7, 8, 9];\n    let a := ar[" + n + "];"},
			{"element-assignment-rhs", "", "let ar: []i32 = [1, 2, 3];\n    ar[0] = " + n + ";"},
			{"compound-assignment-rhs", "", "let acc: i32 = 0;\n    acc += " + n + ";"},
			{"catch-fallback", "fn mayFail(k: i32) -> str ! i32 {\n    if k == 0 {\n        return \"zero\"!;\n    }\n    return k;\n}\n", "let a := mayFail(0) catch " + n + ";"},
			{"catch-handler-body", "fn mayFail(k: i32) -> str ! i32 {\n    if k == 0 {\n        return \"zero\"!;\n    }\n    return k;\n}\n", "let a := mayFail(0) catch e {\n        takeI(" + n + ");\n    } 0;"},
			{"catch-fallback-after-handler", "fn mayFail(k: i32) -> str ! i32 {\n    if k == 0 {\n        return \"zero\"!;\n    }\n    return k;\n}\n", "let a := mayFail(0) catch e {\n        takeI(1);\n    } " + n + ";"},
			{"catch-fallback-after-handler-in-expr", "fn mayFail(k: i32) -> str ! i32 {\n    if k == 0 {\n        return \"zero\"!;\n    }\n    return k;\n}\n", "let a := mayFail(0) catch e {\n        takeI(1);\n    } " + n + " + 1;"},
			{"else-if-condition", "", "if flag {\n        takeI(1);\n    } else if " + n + " > 0 {\n        takeI(2);\n    }"},
			{"while-condition", "", "let wv: i32 = 0;\n    while wv < " + n + " {\n        wv = wv + 100;\n    }"},
			{"closure-body", "", "let cf := fn() -> i32 {\n        return " + n + ";\n    };"},
		}
		if !call {
			s = append(s, c12Site{"print-argument", "", "io::Println(" + n + ");"})
		}
		if call {
			s = append(s, c12Site{"fn-value", "", "let fv := NAME;"})
		}
		return s
	}
	return []c12Sym{
		{"const", "privC", "PubC", valueSites(false)},
		{"var", "privV", "PubV", valueSites(false)},
		{"fn", "privF", "PubF", valueSites(true)},
		{"struct-type", "hidden", "Pub", nil}, // sites filled per twin below (literal differs)
		{"enum-type", "shade", "Color", []c12Site{
			{"variant-chain", "", "let c := NAME::VARIANT;"},
			{"let-annotation", "", "let c: NAME = NAME::VARIANT;"},
			{"param-type", "fn useE(c: NAME) {\n}\n", "let a := 1;"},
			{"return-type", "fn mkE() -> NAME {\n    return NAME::VARIANT;\n}\n", "let a := 1;"},
			{"match-pattern", "", "let c := ALIAS::Color::Red;\n    match c {\n        NAME::VARIANT => {\n        }\n        _ => {\n        }\n    }"},
			{"compare", "", "let c := ALIAS::Color::Red;\n    if c == NAME::VARIANT {\n        takeI(1);\n    }"},
		}},
	}
}

var c12Contexts = []c06Ctx{
	{"fn-body", func(s string) string { return s }},
	{"if", func(s string) string { return "if flag {\n        " + s + "\n    }" }},
	{"while", func(s string) string { return "while flag {\n        " + s + "\n        break;\n    }" }},
	{"match-arm", func(s string) string {
		return "match sel {\n        1 => {\n            " + s + "\n        }\n        _ => {\n        }\n    }"
	}},
	{"closure", func(s string) string { return "let clo := fn() {\n        " + s + "\n    };\n    clo();" }},
}

const c12MainPrelude = `type Box struct { .F: i32 };
type Holder struct { .N: i32 };

fn takeI(v: i32) {
}

fn addI(a: i32, b: i32) -> i32 {
    return a + b;
}
`

func c12Main(imps, top, body string, inMethod bool) string {
	var sb strings.Builder
	sb.WriteString("import \"std/io\";\n" + imps + "\n" + c12MainPrelude + "\n")
	if top != "" {
		sb.WriteString(top + "\n")
	}
	if inMethod {
		sb.WriteString("fn (h: &Holder) work() {\n    let flag := true;\n    let sel := 1;\n    " + body + "\n}\n\nfn main() {\n    let h0: Holder = { .N = 1 };\n    h0.work();\n}\n")
	} else {
		sb.WriteString("fn main() {\n    let flag := true;\n    let sel := 1;\n    " + body + "\n}\n")
	}
	return sb.String()
}

type c12Case struct {
	id       string
	files    map[string]string
	mustFail bool
}

func c12Cases() []c12Case {
	var out []c12Case
	structSites := func(mk, lit string) []c12Site {
		return []c12Site{
			{"let-annotation", "", "let q: NAME = " + mk + ";"},
			{"param-type", "fn useT(p: NAME) {\n}\n", "let a := 1;"},
			{"return-type", "fn mkT() -> NAME {\n    return " + mk + ";\n}\n", "let a := 1;"},
			{"cast-literal", "", "let q := " + lit + " as NAME;"},
			{"annotated-literal", "", "let q: NAME = " + lit + ";"},
			{"array-elem-type", "", "let arr: [1]NAME = [" + mk + "];"},
			{"dyn-array-elem-type", "", "let arr: []NAME = [" + mk + "];"},
			{"optional-param-type", "fn useO(p: NAME?) {\n}\n", "let a := 1;"},
			{"ref-param-type", "fn useR(p: &NAME) {\n}\n", "let a := 1;"},
			{"mut-ref-param-type", "fn useM(p: &'NAME) {\n}\n", "let a := 1;"},
			{"struct-field-type", "type Wrap struct { .F: NAME };\n", "let a := 1;"},
			{"closure-param-type", "", "let cl := fn(p: NAME) {\n    };"},
			{"result-type", "fn res() -> str ! NAME {\n    return " + mk + ";\n}\n", "let a := 1;"},
		}
	}
	for _, sh := range c12Shapes {
		al := sh.alias
		add := func(id string, top, body string, mustFail bool, stmtLevel bool) {
			ctxs := c12Contexts
			if !stmtLevel {
				ctxs = c12Contexts[:1]
			}
			for _, cx := range ctxs {
				for _, inMethod := range []bool{false, true} {
					if !stmtLevel && inMethod {
						continue
					}
					where := cx.name
					if inMethod {
						where += "+method"
					}
					files := sh.files()
					files["main.fer"] = c12Main(sh.imps, top, cx.wrap(body), inMethod)
					out = append(out, c12Case{id: fmt.Sprintf("%s|%s|%s", sh.name, id, where), files: files, mustFail: mustFail})
				}
			}
		}
		for _, sy := range c12Syms() {
			sites := sy.sites
			for _, lowerCase := range []bool{true, false} {
				name := sy.upper
				if lowerCase {
					name = sy.lower
				}
				if sy.kind == "struct-type" {
					if lowerCase {
						sites = structSites(al+"::Mkhidden()", "{ .Z = 1 }")
					} else {
						sites = structSites(al+"::MkPub()", "{ .X = 1, .y = 2 }")
					}
				}
				variant := "Red"
				if lowerCase {
					variant = "Dark"
				}
				for _, st := range sites {
					rep := func(s string) string {
						s = strings.ReplaceAll(s, "NAME", al+"::"+name)
						s = strings.ReplaceAll(s, "VARIANT", variant)
						return strings.ReplaceAll(s, "ALIAS", al)
					}
					cs := "upper"
					if lowerCase {
						cs = "lower"
					}
					add(fmt.Sprintf("%s|%s|%s", sy.kind, cs, st.name), rep(st.top), rep(st.stmt), lowerCase, st.top == "")
				}
			}
		}
		// struct fields of an exported type, from another module
		fieldSites := []c12Site{
			{"read", "", "let a := p.FIELD;"},
			{"read-arg", "", "takeI(p.FIELD);"},
			{"read-paren", "", "let a := (p).FIELD + 1;"},
			{"write", "", "p.FIELD = 5;"},
			{"compound-assign", "", "p.FIELD += 1;"},
			{"increment", "", "p.FIELD++;"},
			{"shared-borrow", "", "let r: &i32 = &p.FIELD;"},
			{"mut-borrow", "", "let r: &'i32 = &'p.FIELD;"},
			{"condition", "", "if p.FIELD > 0 {\n        takeI(1);\n    }"},
			{"through-ref-param", "fn peek(q: &" + al + "::TYPE) -> i32 {\n    return q.FIELD;\n}\n", "let a := peek(&p);"},
			{"through-mut-ref-param", "fn poke(q: &'" + al + "::TYPE) {\n    q.FIELD = 7;\n}\n", "poke(&'p);"},
			{"array-element-field", "", "let arr: [1]" + al + "::TYPE = [" + al + "::MKFN()];\n    let a := arr[0].FIELD;"},
			// inside a method of an unrelated local type, through a name that shadows the receiver
			{"method-closure-param-shadows-receiver", "fn (h: &Holder) viaClosure(o: " + al + "::TYPE) -> i32 {\n    let f := fn(h: " + al + "::TYPE) -> i32 {\n        return h.FIELD;\n    };\n    return f(o);\n}\n", "let a := 1;"},
			{"method-nested-let-shadows-receiver", "fn (h: &Holder) viaBlock(o: " + al + "::TYPE) -> i32 {\n    if h.N > -100 {\n        let h := o;\n        return h.FIELD;\n    }\n    return 0;\n}\n", "let a := 1;"},
			{"method-non-receiver-param", "fn (h: &Holder) viaParam(o: " + al + "::TYPE) -> i32 {\n    return o.FIELD;\n}\n", "let a := 1;"},
		}
		// two struct types: plain fields, and fields that share their name with a method of the type
		for _, sv := range []struct{ tag, typ, mk, lower, upper string }{{"field", "Pub", "MkPub", "y", "X"}, {"field-named-like-a-method", "Dup", "MkDup", "cnt", "Val"}} {
			for _, lowerCase := range []bool{true, false} {
				f, cs := sv.upper, "upper"
				if lowerCase {
					f, cs = sv.lower, "lower"
				}
				rep := strings.NewReplacer("FIELD", f, "TYPE", sv.typ, "MKFN", sv.mk)
				for _, st := range fieldSites {
					body := "let p := " + al + "::" + sv.mk + "();\n    " + rep.Replace(st.stmt)
					add(fmt.Sprintf("%s|%s|%s", sv.tag, cs, st.name), rep.Replace(st.top), body, lowerCase, true)
				}
			}
		}
		// struct literals may initialise private fields (must be accepted)
		add("field|literal-init|cast", "", "let q := { .X = 1, .y = 2 } as "+al+"::Pub;", false, true)
		add("field|literal-init|annotated", "", "let q: "+al+"::Pub = { .X = 1, .y = 2 };", false, true)
		// methods of the type reach the private field through the receiver (must be accepted)
		add("field|via-exported-method", "", "let p := "+al+"::MkPub();\n    p.SetY(4);\n    takeI(p.GetY());", false, true)
	}
	// same module: private field only through the receiver inside a method of its type
	local := `type Loc struct { .Pubf: i32, .privf: i32 };
type Other struct { .K: i32 };

fn (l: &Loc) viaReceiver() -> i32 {
    return l.FIELD;
}

fn (l: &'Loc) setViaReceiver(v: i32) {
    l.FIELD = v;
    l.FIELD += 1;
    l.FIELD++;
}
NAMESAKE`
	sameSites := []c12Site{
		{"plain-fn-read", "fn plain(l: &Loc) -> i32 {\n    return l.FIELD;\n}\n", "let a := 1;"},
		{"plain-fn-write", "fn plainW(l: &'Loc) {\n    l.FIELD = 3;\n}\n", "let a := 1;"},
		{"main-local-read", "", "let lo: Loc = { .Pubf = 1, .privf = 2 };\n    let a := lo.FIELD;"},
		{"main-local-write", "", "let lo: Loc = { .Pubf = 1, .privf = 2 };\n    lo.FIELD = 9;"},
		{"main-local-incr", "", "let lo: Loc = { .Pubf = 1, .privf = 2 };\n    lo.FIELD++;"},
		{"main-local-borrow", "", "let lo: Loc = { .Pubf = 1, .privf = 2 };\n    let r: &i32 = &lo.FIELD;"},
		{"method-of-other-type", "fn (o: &Other) spy(l: &Loc) -> i32 {\n    return l.FIELD;\n}\n", "let a := 1;"},
		{"own-method-non-receiver", "fn (l: &Loc) cmp(other: &Loc) -> bool {\n    return other.FIELD > 0;\n}\n", "let a := 1;"},
		{"closure-in-main", "", "let lo: Loc = { .Pubf = 1, .privf = 2 };\n    let cl := fn() -> i32 {\n        return lo.FIELD;\n    };"},
		{"other-method-closure-param-shadows-receiver", "fn (o: &Other) spy2(l: &Loc) -> i32 {\n    let f := fn(o: &Loc) -> i32 {\n        return o.FIELD;\n    };\n    return f(l);\n}\n", "let a := 1;"},
		{"other-method-nested-let-shadows-receiver", "fn (o: &Other) spy3(l: &Loc) -> i32 {\n    if l.Pubf > -100 {\n        let o := l;\n        return o.FIELD;\n    }\n    return 0;\n}\n", "let a := 1;"},
	}
	for _, namesake := range []bool{false, true} {
		for _, lowerCase := range []bool{true, false} {
			f, cs := "Pubf", "upper"
			if lowerCase {
				f, cs = "privf", "lower"
			}
			loc, tag := strings.ReplaceAll(local, "NAMESAKE", ""), "field"
			if namesake { // the type also has a method with the field's name
				loc, tag = strings.ReplaceAll(local, "NAMESAKE", "\nfn (l: &Loc) FIELD() -> i32 {\n    return l.FIELD;\n}\n"), "field-named-like-a-method"
			}
			for _, st := range sameSites {
				top := strings.ReplaceAll(loc+"\n"+st.top, "FIELD", f)
				body := strings.ReplaceAll(st.stmt, "FIELD", f)
				for _, cx := range c12Contexts {
					if st.top != "" && cx.name != "fn-body" {
						continue
					}
					if namesake && cx.name != "fn-body" && cx.name != "closure" {
						continue
					}
					files := map[string]string{"main.fer": c12Main("", top, cx.wrap(body), false)}
					out = append(out, c12Case{id: fmt.Sprintf("same-module|%s|%s|%s|%s", tag, cs, st.name, cx.name), files: files, mustFail: lowerCase})
				}
			}
		}
	}
	// receiver access itself must be accepted
	out = append(out, c12Case{id: "same-module|field|receiver-access", files: map[string]string{"main.fer": c12Main("", strings.NewReplacer("FIELD", "privf", "NAMESAKE", "").Replace(local), "let lo: Loc = { .Pubf = 1, .privf = 2 };\n    lo.setViaReceiver(3);\n    takeI(lo.viaReceiver());", false)}, mustFail: false})
	return out
}

func checkC12(c *Ctx) error {
	r := c.R
	r.Exhaustive = true
	r.Rule = "finite catalogue enumerated completely: symbol kind {const, variable, function, struct type, enum type, struct field} x case {lowercase twin, uppercase twin} x access site (value use, call, function value, type annotation, parameter/return/receiver-free type positions, cast target, struct literal type, array/optional/reference/result element type, enum variant chain, match pattern, field read/write/compound/++/borrow/through references) x context {function body, method body, if, while, match arm, closure} x import shape {direct, chain with alias, diamond through a sub-directory}; plus same-module field access outside the receiver; every field site also for a field that shares its name with a method of the type. Lowercase => the real compiler must reject, uppercase twin in the identical position => must accept. non-trivial = a distinct project whose verdict matched"
	r.Assumptions = []string{"private methods and enum variants are not part of the property's list and are not asserted", "writes to another module's exported variable are not asserted"}
	cases := c12Cases()
	tcs := make([]TC, len(cases))
	for i, cs := range cases {
		tcs[i] = TC{ID: cs.id, Files: cs.files}
	}
	results, dirs, err := c.TypecheckAll("c12", tcs)
	if err != nil {
		return err
	}
	for i, cs := range cases {
		res := results[i]
		r.Eval()
		src := cs.files["main.fer"]
		bad := ""
		switch {
		case res.Crash != "" || res.Proc.CPUOut:
			bad = "compiler-crash"
		case cs.mustFail && res.Accepted():
			bad = "private-access-accepted"
		case cs.mustFail && !res.CleanReject():
			bad = "unclean-reject"
		case !cs.mustFail && !res.Accepted():
			bad = "exported-access-rejected"
		}
		if bad != "" {
			if !c.ConfirmBudget() {
				continue
			}
			cli, _ := c.ConfirmCLI(dirs[i])
			still := false
			switch bad {
			case "compiler-crash":
				still = cli.Crash != "" || cli.Proc.CPUOut
			case "private-access-accepted":
				still = cli.Accepted()
			case "exported-access-rejected":
				still = !cli.Accepted()
			default:
				still = !cli.CleanReject() && !cli.Accepted()
			}
			if !still {
				r.Inconclusive("in-process and CLI verdicts differ for " + cs.id)
				continue
			}
			r.Fail(core.Failure{Case: cs.id, Signature: bad, Detail: fmt.Sprintf("%s %s\n--- main.fer ---\n%s", cli.FirstError(), cli.Crash, src), Replay: cs.files})
			continue
		}
		r.Nontrivial(cs.id)
		if cs.mustFail {
			r.Count("lowercase_rejected", 1)
			// the diagnostic should be about visibility
			vis := false
			for _, d := range core.Errors(res.Diags) {
				if strings.Contains(d.Message, "not exported") || strings.Contains(d.Message, "is private") {
					vis = true
				}
			}
			if vis {
				r.Count("rejected_with_visibility_diagnostic", 1)
			} else {
				r.Count("rejected_with_other_diagnostic", 1)
			}
		} else {
			r.Count("uppercase_accepted", 1)
		}
		if i%173 == 0 {
			r.Sample(map[string]interface{}{"case": cs.id, "must_fail": cs.mustFail, "first_error": res.FirstError(), "main.fer": src})
		}
	}
	return nil
}
