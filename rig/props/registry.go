// Package props holds one monitor per property.
package props

import (
	"strings"

	"verifrig/core"
)

// Ctx is what a check gets.
type Ctx struct {
	Env    *core.Env
	R      *core.Report
	Replay string
}

// Quick reports whether this is the quick tier.
func (c *Ctx) Quick() bool { return c.Env.Tier != "thorough" }

// N picks the case count for the tier.
func (c *Ctx) N(quick, thorough int) int {
	if c.Quick() {
		return quick
	}
	return thorough
}

type checkFn func(*Ctx) error

var registry = map[string]checkFn{}

func register(id string, f checkFn) { registry[id] = f }

// Lookup returns the check of a property.
func Lookup(id string) checkFn { return registry[id] }

// IDs lists registered properties.
func IDs() []string {
	var out []string
	for k := range registry {
		out = append(out, k)
	}
	return out
}

// completeLines splits driver output into lines, dropping a trailing partial line
// (a driver killed by a sanitizer may have flushed half a line).
func completeLines(out string) []string {
	if out == "" {
		return nil
	}
	if !strings.HasSuffix(out, "\n") {
		i := strings.LastIndex(out, "\n")
		if i < 0 {
			return nil
		}
		out = out[:i+1]
	}
	return strings.Split(strings.TrimSuffix(out, "\n"), "\n")
}
