// Package props holds one monitor per property.
package props

import (
	"sync/atomic"
	"fmt"
	"path/filepath"
	"strings"

	"verifrig/core"
)

// Ctx is what a check gets.
type Ctx struct {
	confirms int32
	Env    *core.Env
	R      *core.Report
	Replay string
}

// Quick reports whether this is the quick tier.
func (c *Ctx) Quick() bool { return c.Env.Tier != "thorough" }

// N picks the case count for the tier.
func (c *Ctx) N(quick, thorough int) int {
	if c.Quick() {
		return quick
	}
	return thorough
}

type checkFn func(*Ctx) error

var registry = map[string]checkFn{}

func register(id string, f checkFn) { registry[id] = f }

// Lookup returns the check of a property.
func Lookup(id string) checkFn { return registry[id] }

// IDs lists registered properties.
func IDs() []string {
	var out []string
	for k := range registry {
		out = append(out, k)
	}
	return out
}

// completeLines splits driver output into lines, dropping a trailing partial line
// (a driver killed by a sanitizer may have flushed half a line).
func completeLines(out string) []string {
	if out == "" {
		return nil
	}
	if !strings.HasSuffix(out, "\n") {
		i := strings.LastIndex(out, "\n")
		if i < 0 {
			return nil
		}
		out = out[:i+1]
	}
	return strings.Split(strings.TrimSuffix(out, "\n"), "\n")
}

// TC is one type-check case for the in-process pool.
type TC struct {
	ID    string
	Files map[string]string // relative path -> content; entry is "main.fer"
}

// TypecheckAll writes every case to its own directory, compiles them on the in-process pool
// (target typecheck) and returns CLI-shaped results; dirs[i] is the case directory.
func (c *Ctx) TypecheckAll(tag string, cases []TC) ([]core.CompileResult, []string, error) {
	libs, err := c.Env.Libs()
	if err != nil {
		return nil, nil, err
	}
	jobs := make([]core.Job, len(cases))
	dirs := make([]string, len(cases))
	for i, cs := range cases {
		d := c.Env.CaseDir(tag, fmt.Sprintf("c%d", i))
		dirs[i] = d
		for rel, content := range cs.Files {
			// {{PROJ}} = project name (basename of the entry directory), the root of local import paths
			content = strings.ReplaceAll(content, "{{PROJ}}", filepath.Base(d))
			if err := core.WriteFile(filepath.Join(d, rel), content); err != nil {
				return nil, nil, err
			}
		}
		jobs[i] = core.Job{ID: cs.ID, Entry: filepath.Join(d, "main.fer"), Target: "typecheck"}
	}
	pool := &core.Pool{Libs: libs, LogDir: filepath.Join(c.Env.Work, "pool-"+tag)}
	res := pool.Run(jobs)
	out := make([]core.CompileResult, len(res))
	for i := range res {
		out[i] = res[i].ToCompileResult("")
	}
	return out, dirs, nil
}

// ConfirmBudget limits how many candidate violations are re-run through the CLI binary (and given
// witnesses): past the cap the verdict is decided already and further suspects are only counted.
func (c *Ctx) ConfirmBudget() bool {
	if atomic.AddInt32(&c.confirms, 1) > 40 {
		c.R.Count("suspects_beyond_confirmation_cap(counted, not re-run)", 1)
		return false
	}
	return true
}

// ConfirmCLI re-runs one case through the real ferret binary (type-check only).
func (c *Ctx) ConfirmCLI(dir string) (core.CompileResult, error) {
	bin, err := c.Env.Ferret()
	if err != nil {
		return core.CompileResult{}, err
	}
	libs, err := c.Env.Libs()
	if err != nil {
		return core.CompileResult{}, err
	}
	return core.Compile(core.CompileOpts{Binary: bin, Libs: libs, Target: core.TypeCheck}, filepath.Join(dir, "main.fer")), nil
}
