package props

import (
	"fmt"
	"math/rand/v2"
	"os"
	"path/filepath"
	"runtime"
	"sort"
	"strings"
	"sync"
	"sync/atomic"
	"time"

	"compiler/verifhook"

	"github.com/anishathalye/porcupine"

	"verifrig/core"
)

// C15 — import graphs: every cycle is rejected, every DAG builds, under all schedules.
//  (a) verdict by construction over projects generated from digraphs (all digraphs on 3 non-entry
//      modules including self-loops, sampled larger ones, repeated/aliased imports), compiled by
//      hook-perturbed workers; DAG projects are also built natively and run: the printed number
//      proves every dependency's symbols were visible;
//  (b) exactly-once check over the VERIF_EVENTS log of the CLI runs;
//  (c) linearizability (porcupine) of concurrent AddDependency calls recorded at the client boundary.

func init() { register("C15", checkC15) }

type c15Graph struct {
	n     int
	edges [][]int // adjacency: edges[i] = modules imported by module i
	dup   bool    // repeat one import under a second alias
}

func (g c15Graph) cyclic() bool {
	state := make([]int, g.n)
	var dfs func(int) bool
	dfs = func(u int) bool {
		state[u] = 1
		for _, v := range g.edges[u] {
			if state[v] == 1 {
				return true
			}
			if state[v] == 0 && dfs(v) {
				return true
			}
		}
		state[u] = 2
		return false
	}
	for i := 0; i < g.n; i++ {
		if state[i] == 0 && dfs(i) {
			return true
		}
	}
	return false
}

// value computes V() of module i: id+1 plus the sum over imports (with multiplicity).
func (g c15Graph) value(i int, memo map[int]int64) int64 {
	if v, ok := memo[i]; ok {
		return v
	}
	v := int64(i + 1)
	for _, j := range g.edges[i] {
		v += g.value(j, memo)
	}
	memo[i] = v
	return v
}

func (g c15Graph) key() string {
	var sb strings.Builder
	for i, e := range g.edges {
		fmt.Fprintf(&sb, "%d>%v;", i, e)
	}
	if g.dup {
		sb.WriteString("dup")
	}
	return sb.String()
}

func (g c15Graph) files() map[string]string {
	files := map[string]string{}
	for i := 0; i < g.n; i++ {
		var sb strings.Builder
		seen := map[int]int{}
		for _, j := range g.edges[i] {
			seen[j]++
			alias := fmt.Sprintf("d%d", j)
			if seen[j] > 1 {
				alias = fmt.Sprintf("d%dx%d", j, seen[j])
			}
			fmt.Fprintf(&sb, "import \"{{PROJ}}/mod%d\" as %s;\n", j, alias)
		}
		fmt.Fprintf(&sb, "\nfn V() -> i32 {\n    let r: i32 = %d", i+1)
		seen = map[int]int{}
		for _, j := range g.edges[i] {
			seen[j]++
			alias := fmt.Sprintf("d%d", j)
			if seen[j] > 1 {
				alias = fmt.Sprintf("d%dx%d", j, seen[j])
			}
			fmt.Fprintf(&sb, " + %s::V()", alias)
		}
		sb.WriteString(";\n    return r;\n}\n")
		files[fmt.Sprintf("mod%d.fer", i)] = sb.String()
	}
	var sb strings.Builder
	sb.WriteString("import \"std/io\";\n")
	for i := 0; i < g.n; i++ {
		fmt.Fprintf(&sb, "import \"{{PROJ}}/mod%d\" as m%d;\n", i, i)
	}
	sb.WriteString("\nfn main() {\n")
	for i := 0; i < g.n; i++ {
		fmt.Fprintf(&sb, "    let v%d := m%d::V();\n    io::Println(v%d);\n", i, i, i)
	}
	sb.WriteString("}\n")
	files["main.fer"] = sb.String()
	return files
}

func allGraphs3() []c15Graph {
	var out []c15Graph
	for mask := 0; mask < 512; mask++ {
		g := c15Graph{n: 3, edges: make([][]int, 3)}
		for b := 0; b < 9; b++ {
			if mask>>b&1 == 1 {
				g.edges[b/3] = append(g.edges[b/3], b%3)
			}
		}
		out = append(out, g)
	}
	return out
}

func randGraph(rng *rand.Rand) c15Graph {
	n := 4 + rng.IntN(3)
	g := c15Graph{n: n, edges: make([][]int, n)}
	dag := rng.IntN(2) == 0
	perm := rng.Perm(n)
	for i := 0; i < n; i++ {
		for j := 0; j < n; j++ {
			if i == j && (dag || rng.IntN(12) != 0) {
				continue
			}
			if dag && perm[i] >= perm[j] {
				continue
			}
			if rng.IntN(100) < 35 {
				g.edges[i] = append(g.edges[i], j)
			}
		}
	}
	if rng.IntN(3) == 0 { // repeated + aliased import
		for i := 0; i < n; i++ {
			if len(g.edges[i]) > 0 {
				g.edges[i] = append(g.edges[i], g.edges[i][0])
				g.dup = true
				break
			}
		}
	}
	return g
}

// ---- (c) linearizability of AddDependency ---------------------------------------------------

type depIn struct{ u, v string }

func depModel() porcupine.Model {
	reach := func(edges map[string][]string, from, to string) bool {
		seen := map[string]bool{}
		var dfs func(string) bool
		dfs = func(x string) bool {
			if x == to {
				return true
			}
			if seen[x] {
				return false
			}
			seen[x] = true
			for _, y := range edges[x] {
				if dfs(y) {
					return true
				}
			}
			return false
		}
		return dfs(from)
	}
	parse := func(st string) map[string][]string {
		e := map[string][]string{}
		for _, p := range strings.Split(st, ";") {
			if p == "" {
				continue
			}
			uv := strings.Split(p, ">")
			e[uv[0]] = append(e[uv[0]], uv[1])
		}
		return e
	}
	return porcupine.Model{
		Init: func() interface{} { return "" },
		Step: func(state, input, output interface{}) (bool, interface{}) {
			st := state.(string)
			in := input.(depIn)
			ok := output.(bool) // true = accepted (nil error)
			edges := parse(st)
			// spec: reject iff imported reaches importer (adding importer->imported closes a cycle)
			wouldCycle := reach(edges, in.v, in.u)
			if wouldCycle {
				return !ok, st
			}
			if !ok {
				return false, st
			}
			for _, y := range edges[in.u] {
				if y == in.v {
					return true, st
				}
			}
			parts := strings.Split(st, ";")
			parts = append(parts, in.u+">"+in.v)
			sort.Strings(parts)
			return true, strings.Trim(strings.Join(parts, ";"), ";")
		},
		Equal: func(a, b interface{}) bool { return a.(string) == b.(string) },
		DescribeOperation: func(input, output interface{}) string {
			in := input.(depIn)
			return fmt.Sprintf("AddDependency(%s,%s)=%v", in.u, in.v, output.(bool))
		},
	}
}

func runDepHistory(rng *rand.Rand) ([]porcupine.Operation, map[string][]string) {
	g := verifhook.NewDepGraph()
	nodes := []string{"a", "b", "c", "d", "e"}[:4+rng.IntN(2)]
	nThreads := 4
	perThread := 2 + rng.IntN(2) // <= 14 ops total
	type planned struct{ in depIn }
	plans := make([][]planned, nThreads)
	for t := 0; t < nThreads; t++ {
		for k := 0; k < perThread; k++ {
			u := nodes[rng.IntN(len(nodes))]
			v := nodes[rng.IntN(len(nodes))]
			plans[t] = append(plans[t], planned{depIn{u, v}})
		}
	}
	var clock atomic.Int64
	var mu sync.Mutex
	var ops []porcupine.Operation
	var wg sync.WaitGroup
	start := make(chan struct{})
	// a spinning barrier per round releases all clients at the same instant, so that the
	// calls of one round really overlap (AddDependency itself takes well under a microsecond)
	arrived := make([]atomic.Int32, perThread)
	for t := 0; t < nThreads; t++ {
		wg.Add(1)
		go func(t int) {
			defer wg.Done()
			<-start
			for k, p := range plans[t] {
				arrived[k].Add(1)
				for arrived[k].Load() < int32(nThreads) {
					runtime.Gosched()
				}
				call := clock.Add(1)
				err := g.AddDependency(p.in.u, p.in.v)
				ret := clock.Add(1)
				mu.Lock()
				ops = append(ops, porcupine.Operation{ClientId: t, Input: p.in, Call: call, Output: err == nil, Return: ret})
				mu.Unlock()
			}
		}(t)
	}
	close(start)
	wg.Wait()
	return ops, g.Edges()
}

func checkC15(c *Ctx) error {
	r := c.R
	r.Rule = "(a) projects generated from digraphs: ALL 512 digraphs on 3 non-entry modules (self-loops included) plus sampled digraphs on 4-6 modules with repeated/aliased imports, plus a cycle stress (2- and 3-cycles among sibling modules that also import a hub of 0 / 6 / 24 shared modules, each repeated 10x quick / 60x thorough), each module exporting V() = id + sum of its imports' V(); type-checked by hook-perturbed in-process workers (distinct VERIF_SCHED per worker) and, for every DAG and a share of the cyclic ones, compiled by the ferret-verif CLI under further (GOMAXPROCS, VERIF_SCHED) schedules, built natively and run; cyclic => exit 1 with 'circular import detected', acyclic => accepted and prints the oracle's numbers; (b) VERIF_EVENTS log: exactly one parse.start per module, every parse.adddep after that module's parse.lexed; (c) 4 goroutines x 2-3 concurrent AddDependency calls on 4-5 nodes recorded at the client boundary and checked for linearizability by porcupine against 'reject iff imported reaches importer, else insert'. non-trivial = a distinct graph/history whose verdict was decided"
	r.Assumptions = []string{"a porcupine timeout is inconclusive", "logical clock for call/return stamps is one atomic counter"}
	r.Exhaustive = false
	libs, err := c.Env.Libs()
	if err != nil {
		return err
	}
	verif, err := c.Env.FerretVerif()
	if err != nil {
		return err
	}
	graphs := allGraphs3()
	nExtra := c.N(40, 3000)
	for i := 0; i < nExtra; i++ {
		graphs = append(graphs, randGraph(core.CaseRng(c.Env.Seed, "C15-graph", i)))
	}
	// cycle stress: cycles among sibling modules (all imported by main, so their parsers start
	// together), each member also importing a hub of already-parsed modules, repeated many times:
	// a cycle check that is not atomic with the edge insertion only fails in narrow interleavings
	nBase := len(graphs)
	for _, hub := range []int{0, 6, 24} {
		for _, clen := range []int{2, 3} {
			g := c15Graph{n: clen + hub, edges: make([][]int, clen+hub)}
			for k := 0; k < clen; k++ {
				g.edges[k] = append(g.edges[k], (k+1)%clen)
				for h := 0; h < hub; h++ {
					g.edges[k] = append(g.edges[k], clen+h)
				}
			}
			for h := 0; h < hub; h++ {
				for h2 := h + 1; h2 < hub && h2 <= h+3; h2++ {
					g.edges[clen+h] = append(g.edges[clen+h], clen+h2)
				}
			}
			for rep := 0; rep < c.N(10, 60); rep++ {
				graphs = append(graphs, g)
			}
		}
	}
	// (a1) all graphs through the perturbed pool
	jobs := make([]core.Job, len(graphs))
	dirs := make([]string, len(graphs))
	for i, g := range graphs {
		d := c.Env.CaseDir("c15", fmt.Sprintf("g%d", i))
		dirs[i] = d
		for rel, content := range g.files() {
			core.WriteFile(filepath.Join(d, rel), strings.ReplaceAll(content, "{{PROJ}}", filepath.Base(d)))
		}
		id := fmt.Sprintf("graph:%s", g.key())
		if i >= nBase {
			id = fmt.Sprintf("cycle-stress:%d-cycle+hub%d#%d", len(g.edges[0])-(g.n-len(g.edges[0])-1)*0, g.n, i-nBase)
			id = fmt.Sprintf("cycle-stress:n%d#%d", g.n, i-nBase)
		}
		jobs[i] = core.Job{ID: id, Entry: filepath.Join(d, "main.fer"), Target: "typecheck"}
	}
	pool := &core.Pool{Libs: libs, LogDir: filepath.Join(c.Env.Work, "pool-c15"), WorkerEnv: func(idx int) []string {
		return []string{fmt.Sprintf("VERIF_SCHED=%d", int(c.Env.Seed)*131+idx*7+1), "GOMAXPROCS=" + []string{"1", "2", "4", "8"}[idx%4]}
	}}
	results := pool.Run(jobs)
	judge := func(g c15Graph, res core.CompileResult, where string) (string, string) {
		if res.Crash != "" {
			return "compiler-crash", res.Crash
		}
		if res.Proc.CPUOut {
			return "hang-or-cpu-budget", ""
		}
		circ := false
		for _, d := range core.Errors(res.Diags) {
			if strings.Contains(d.Message, "circular import detected") {
				circ = true
			}
		}
		if g.cyclic() {
			if res.Accepted() || res.Proc.Exit == 0 {
				return "cyclic-project-accepted", ""
			}
			if !circ {
				return "cyclic-project-without-circular-import-error", res.FirstError()
			}
			return "", ""
		}
		if !res.Accepted() {
			return "acyclic-project-rejected", res.FirstError()
		}
		return "", ""
	}
	var cliIdx []int
	for i, g := range graphs {
		res := results[i].ToCompileResult("")
		r.Eval()
		if res.Proc.WallOut {
			r.Inconclusive("wall watchdog on " + jobs[i].ID)
			continue
		}
		sig, det := judge(g, res, "pool")
		if sig != "" {
			// confirm with the real CLI; the failure may depend on the schedule, so several
			// (GOMAXPROCS, VERIF_SCHED) combinations of the hook-enabled binary are tried
			cli, _ := c.ConfirmCLI(dirs[i])
			s2, _ := judge(g, cli, "cli")
			how := "plain ferret"
			for t := 0; s2 == "" && t < 40; t++ {
				env := []string{"GOMAXPROCS=" + []string{"1", "2", "4", "8", "16"}[t%5], fmt.Sprintf("VERIF_SCHED=%d", 7000+t*13+i)}
				cr := core.Compile(core.CompileOpts{Binary: verif, Libs: libs, Target: core.TypeCheck, Env: env, CPUSecs: 60}, filepath.Join(dirs[i], "main.fer"))
				s2, _ = judge(g, cr, "cli")
				how = fmt.Sprintf("ferret-verif %v (attempt %d)", env, t+1)
			}
			if s2 == "" {
				r.Inconclusive("seen in the in-process pool but not reproduced by 41 CLI runs: " + sig + " for " + jobs[i].ID)
			} else {
				r.Fail(core.Failure{Case: jobs[i].ID, Signature: s2, Detail: fmt.Sprintf("%s\nconfirmed with %s\ngraph %s cyclic=%v", det, how, g.key(), g.cyclic()), Replay: g.files()})
			}
			continue
		}
		if i >= nBase {
			r.Count("cycle_stress_runs_rejected_with_circular_import_error", 1)
		}
		r.Nontrivial(jobs[i].ID)
		if g.cyclic() {
			r.Count("cyclic_rejected", 1)
			if i%c.N(40, 8) == 0 {
				cliIdx = append(cliIdx, i)
			}
		} else {
			r.Count("acyclic_accepted", 1)
			cliIdx = append(cliIdx, i)
		}
	}
	// (a2)+(b) CLI runs of ferret-verif under further schedules, native build + run for DAGs
	nSched := c.N(2, 6)
	gmps := []string{"1", "2", "4", "16"}
	core.ParDo(len(cliIdx), 5, func(k int) {
		i := cliIdx[k]
		g := graphs[i]
		id := jobs[i].ID
		for s := 0; s < nSched; s++ {
			evf := filepath.Join(dirs[i], fmt.Sprintf("events%d.log", s))
			os.Remove(evf)
			env := []string{"GOMAXPROCS=" + gmps[(s+k)%4], fmt.Sprintf("VERIF_SCHED=%d", 1000+s*977+k), "VERIF_EVENTS=" + evf}
			target := core.Native
			if g.cyclic() || (c.Quick() && s > 0) {
				target = core.TypeCheck // quick: one native build+run per DAG, further schedules type-check only
			}
			res := core.Compile(core.CompileOpts{Binary: verif, Libs: libs, Target: target, Env: env, CPUSecs: 30}, filepath.Join(dirs[i], "main.fer"))
			r.Eval()
			if res.Proc.WallOut {
				r.Inconclusive("wall watchdog (CLI) on " + id)
				continue
			}
			if sig, det := judge(g, res, "cli"); sig != "" {
				r.Fail(core.Failure{Case: id, Signature: sig, Detail: fmt.Sprintf("%s\nschedule %v", det, env[:2]), Replay: g.files()})
				return
			}
			// (b) exactly-once over the event log
			if b, err := os.ReadFile(evf); err == nil {
				starts := map[string]int{}
				lexed := map[string]bool{}
				for _, l := range strings.Split(string(b), "\n") {
					f := strings.Fields(l)
					if len(f) != 4 {
						continue
					}
					switch f[2] {
					case "parse.start":
						starts[f[3]]++
					case "parse.lexed":
						lexed[f[3]] = true
					case "parse.adddep":
						if !lexed[f[3]] {
							r.Fail(core.Failure{Case: id, Signature: "adddep-before-lexed", Detail: l, Replay: g.files()})
						}
					}
				}
				proj := filepath.Base(dirs[i])
				for m := 0; m < g.n; m++ {
					name := fmt.Sprintf("%s/mod%d", proj, m)
					if starts[name] != 1 {
						r.Fail(core.Failure{Case: id, Signature: fmt.Sprintf("module-parsed-%d-times", starts[name]), Detail: fmt.Sprintf("module %s parse.start count %d\n%s", name, starts[name], core.Short(string(b), 1500)), Replay: g.files()})
						return
					}
				}
				r.Count("event_logs_checked", 1)
			} else {
				r.Inconclusive("no event log for " + id)
			}
			if target == core.Native {
				run := core.RunNative(res.Artifact, 10)
				memo := map[int]int64{}
				var want []string
				for m := 0; m < g.n; m++ {
					want = append(want, fmt.Sprint(g.value(m, memo)))
				}
				if run.Kind != core.RunExit0 || strings.Join(run.Lines, ",") != strings.Join(want, ",") {
					r.Fail(core.Failure{Case: id, Signature: "dag-program-wrong-output", Detail: fmt.Sprintf("run=%s printed %v, oracle %v\nstderr %s", run.Kind, run.Lines, want, core.Short(run.Proc.Stderr, 300)), Replay: g.files()})
					return
				}
				r.Count("dag_programs_ran_ok", 1)
			}
		}
		r.Nontrivial(id + "@cli")
	})
	// (c) linearizability
	nHist := c.N(1500, 20000)
	model := depModel()
	var lmu sync.Mutex
	distinctInterleavings := map[string]bool{}
	core.ParDo(nHist, 4, func(h int) {
		rng := core.CaseRng(c.Env.Seed, "C15-lin", h)
		ops, edges := runDepHistory(rng)
		r.Eval()
		res, info := porcupine.CheckOperationsVerbose(model, ops, 20*time.Second)
		_ = info
		var desc []string
		sort.Slice(ops, func(a, b int) bool { return ops[a].Call < ops[b].Call })
		for _, o := range ops {
			in := o.Input.(depIn)
			desc = append(desc, fmt.Sprintf("[c%d %d-%d] AddDependency(%s,%s)=%v", o.ClientId, o.Call, o.Return, in.u, in.v, o.Output))
		}
		hd := strings.Join(desc, "\n")
		switch res {
		case porcupine.Illegal:
			r.Fail(core.Failure{Case: fmt.Sprintf("lin:%d:%d", c.Env.Seed, h), Signature: "non-linearizable-AddDependency-history", Detail: hd, Replay: hd})
		case porcupine.Unknown:
			r.Inconclusive("porcupine timeout")
		default:
			// final graph must be acyclic and consist of accepted edges only
			acc := map[string]bool{}
			for _, o := range ops {
				if o.Output.(bool) {
					in := o.Input.(depIn)
					acc[in.u+">"+in.v] = true
				}
			}
			n := 0
			for u, vs := range edges {
				for _, v := range vs {
					n++
					if !acc[u+">"+v] {
						r.Fail(core.Failure{Case: fmt.Sprintf("lin:%d:%d", c.Env.Seed, h), Signature: "edge-in-graph-that-was-never-accepted", Detail: u + ">" + v + "\n" + hd, Replay: hd})
					}
				}
			}
			if n != len(acc) {
				r.Fail(core.Failure{Case: fmt.Sprintf("lin:%d:%d", c.Env.Seed, h), Signature: "accepted-edge-missing-from-graph", Detail: fmt.Sprintf("%d edges in graph, %d accepted\n%s", n, len(acc), hd), Replay: hd})
			}
			r.Nontrivial("lin" + hd)
			r.Count("histories_linearizable", 1)
			overlap := 0
			for a := range ops {
				for b := range ops {
					if a < b && ops[a].Call < ops[b].Return && ops[b].Call < ops[a].Return {
						overlap++
					}
				}
			}
			lmu.Lock()
			distinctInterleavings[hd] = true
			lmu.Unlock()
			r.Count("overlapping_operation_pairs", overlap)
		}
		if h < 2 {
			r.Sample(map[string]interface{}{"kind": "AddDependency history", "ops": desc})
		}
	})
	r.Set("distinct_histories", len(distinctInterleavings))
	g0 := graphs[37]
	r.Sample(map[string]interface{}{"kind": "project", "graph": g0.key(), "cyclic": g0.cyclic(), "files": g0.files()})
	return nil
}
