package props

import (
	"fmt"
	"math/rand/v2"
	"strings"

	"verifrig/core"
	"verifrig/gen"
)

// C05 — a non-void function always returns a value from a return statement.
// Verdict monitor + reference-model monitor. A reference path analysis over the generated body
// (conditions opaque; integer match without `_` may fall through; enum match covering every
// variant does not) classifies each body as MUST_REJECT (some syntactic path reaches the end),
// MUST_ACCEPT (straight-line / if-else both returning / match with default all returning /
// trailing return) or MAY. Accepted functions are then called over a grid of argument values
// that drives every path and the printed results are compared with the reference interpreter,
// which reports fell-off-end.

func init() { register("C05", checkC05) }

type c05Class int

const (
	c05MustAccept c05Class = iota
	c05MustReject
	c05May
)

type c05Body struct {
	stmts   []gen.Stmt
	returns bool // every path ends in a return (by the syntactic rule)
	may     bool // contains a construct the rule does not pin (exhaustive enum match without default)
	shapes  map[string]bool
}

type c05Gen struct {
	rng  *rand.Rand
	enum *gen.Type
	a, b *gen.Var
	e    *gen.Var
	n    int
}

func (g *c05Gen) lit(v int64) *gen.Lit { return &gen.Lit{T: gen.I32, I: v} }

func (g *c05Gen) cond() gen.Expr {
	v := g.a
	if g.rng.IntN(2) == 0 {
		v = g.b
	}
	op := []string{"<", ">", "==", "!=", "<=", ">="}[g.rng.IntN(6)]
	return &gen.Bin{Op: op, L: v, R: g.lit(int64(g.rng.IntN(4))), T: gen.TBool}
}

// condParts returns a condition together with statements to place before and after the construct
// that tests it. Besides the plain `param op literal` form it produces conditions over a local
// whose value at the test comes from a parameter (so both outcomes are feasible and the syntactic
// rule applies unchanged) while the same local holds a compile-time constant somewhere else in
// the function: it is initialised with a constant and overwritten before the test, or it is
// reassigned to a constant after the construct. A compiler that decides the condition from such
// a constant drops a feasible path.
func (g *c05Gen) condParts(sh map[string]bool) (pre []gen.Stmt, cond gen.Expr, post []gen.Stmt) {
	switch g.rng.IntN(6) {
	case 0: // bool flag, constant assigned afterwards
		g.n++
		f := &gen.Var{Name: fmt.Sprintf("fl%d", g.n), T: gen.TBool}
		pre = []gen.Stmt{&gen.Let{Name: f.Name, T: gen.TBool, Init: g.cond()}}
		post = []gen.Stmt{&gen.Assign{LHS: f, Op: "=", RHS: &gen.Lit{T: gen.TBool, I: int64(g.rng.IntN(2))}}}
		sh["cond-local-flag-constant-later"] = true
		return pre, f, post
	case 1: // int local, constant assigned afterwards
		g.n++
		l := &gen.Var{Name: fmt.Sprintf("lv%d", g.n), T: gen.I32}
		k := int64(g.rng.IntN(3))
		pre = []gen.Stmt{&gen.Let{Name: l.Name, T: gen.I32, Init: g.a}}
		post = []gen.Stmt{&gen.Assign{LHS: l, Op: "=", RHS: g.lit(k + int64(g.rng.IntN(2)))}}
		sh["cond-local-int-constant-later"] = true
		return pre, &gen.Bin{Op: []string{"==", "!=", "<", ">="}[g.rng.IntN(4)], L: l, R: g.lit(k), T: gen.TBool}, post
	case 2: // constant initialiser overwritten by a run-time value before the test
		g.n++
		f := &gen.Var{Name: fmt.Sprintf("fl%d", g.n), T: gen.TBool}
		pre = []gen.Stmt{&gen.Let{Name: f.Name, T: gen.TBool, Init: &gen.Lit{T: gen.TBool, I: int64(g.rng.IntN(2))}},
			&gen.Assign{LHS: f, Op: "=", RHS: g.cond()}}
		sh["cond-local-flag-constant-before"] = true
		return pre, f, nil
	}
	return nil, g.cond(), nil
}

// c05Directed is the number of directed stale-constant templates.
const c05Directed = 14

// directed builds body template d: a function whose only return sits behind a condition over a
// local that is run-time valued at the test but holds a compile-time constant elsewhere. Every
// template has a feasible path to the end of the body without a return: MUST_REJECT.
func (g *c05Gen) directed(d int, sh map[string]bool) c05Body {
	fl := &gen.Var{Name: "fl", T: gen.TBool}
	lv := &gen.Var{Name: "lv", T: gen.I32}
	bl := func(v int64) *gen.Lit { return &gen.Lit{T: gen.TBool, I: v} }
	aGt := &gen.Bin{Op: ">", L: g.a, R: g.lit(1), T: gen.TBool}
	letFl := &gen.Let{Name: "fl", T: gen.TBool, Init: aGt}
	letLv := &gen.Let{Name: "lv", T: gen.I32, Init: g.a}
	ifRet := func(c gen.Expr) gen.Stmt { return &gen.If{Cond: c, Then: []gen.Stmt{g.retStmt()}} }
	setFl := func(v int64) gen.Stmt { return &gen.Assign{LHS: fl, Op: "=", RHS: bl(v)} }
	var ss []gen.Stmt
	switch d {
	case 0:
		ss = []gen.Stmt{letFl, ifRet(fl), setFl(1)}
	case 1:
		ss = []gen.Stmt{letFl, ifRet(&gen.Un{Op: "!", X: fl}), setFl(0)}
	case 2:
		ss = []gen.Stmt{letLv, ifRet(&gen.Bin{Op: "==", L: lv, R: g.lit(0), T: gen.TBool}), &gen.Assign{LHS: lv, Op: "=", RHS: g.lit(0)}}
	case 3:
		ss = []gen.Stmt{letLv, ifRet(&gen.Bin{Op: "!=", L: lv, R: g.lit(0), T: gen.TBool}), &gen.Assign{LHS: lv, Op: "=", RHS: g.lit(5)}}
	case 4:
		ss = []gen.Stmt{&gen.Let{Name: "fl", T: gen.TBool, Init: bl(1)}, &gen.Assign{LHS: fl, Op: "=", RHS: aGt}, ifRet(fl)}
	case 5:
		ss = []gen.Stmt{letFl, &gen.If{Cond: fl, Then: []gen.Stmt{g.retStmt()}, Else: []gen.Stmt{g.filler()}}, setFl(1)}
	case 6:
		ss = []gen.Stmt{&gen.Let{Name: "lv", T: gen.I32, Init: g.b}, &gen.Match{Subj: lv, Arms: []gen.MatchArm{{Pat: g.lit(0), Body: []gen.Stmt{g.retStmt()}}}}, &gen.Assign{LHS: lv, Op: "=", RHS: g.lit(0)}}
	case 7:
		ss = []gen.Stmt{letFl, &gen.If{Cond: &gen.Bin{Op: "==", L: g.b, R: g.lit(0), T: gen.TBool}, Then: []gen.Stmt{g.retStmt()}, Else: []gen.Stmt{ifRet(fl)}}, setFl(1)}
	case 8:
		ss = []gen.Stmt{letFl, &gen.If{Cond: &gen.Bin{Op: "==", L: g.b, R: g.lit(7), T: gen.TBool}, Then: []gen.Stmt{setFl(1)}}, ifRet(fl)}
	case 9:
		ss = []gen.Stmt{letFl, ifRet(fl), &gen.Block{Body: []gen.Stmt{setFl(1)}}}
	case 10:
		iw := &gen.Var{Name: "iw", T: gen.I32}
		ss = []gen.Stmt{letFl, ifRet(fl), &gen.Let{Name: "iw", T: gen.I32, Init: g.lit(0), Annot: true},
			&gen.While{Cond: &gen.Bin{Op: "<", L: iw, R: g.lit(1), T: gen.TBool}, Body: []gen.Stmt{setFl(1), &gen.Assign{LHS: iw, Op: "=", RHS: &gen.Bin{Op: "+", L: iw, R: g.lit(1), T: gen.I32}}}}}
	case 11: // the flag is a compile-time constant only on the path that skips the test
		ss = []gen.Stmt{&gen.Let{Name: "fl", T: gen.TBool, Init: bl(0)}, &gen.If{Cond: &gen.Bin{Op: "<", L: g.b, R: g.lit(9), T: gen.TBool}, Then: []gen.Stmt{&gen.Assign{LHS: fl, Op: "=", RHS: aGt}, ifRet(fl)}}, setFl(1)}
	case 12: // const-looking comparison of two locals, one of them run-time valued
		ss = []gen.Stmt{letLv, &gen.Let{Name: "k0", T: gen.I32, Init: g.lit(2)}, ifRet(&gen.Bin{Op: "<", L: lv, R: &gen.Var{Name: "k0", T: gen.I32}, T: gen.TBool}), &gen.Assign{LHS: lv, Op: "=", RHS: g.lit(1)}}
	default: // logical combination with a literal
		ss = []gen.Stmt{letFl, ifRet(&gen.Bin{Op: "&&", L: fl, R: bl(1), T: gen.TBool}), setFl(1)}
	}
	sh[fmt.Sprintf("directed-stale-constant-%d", d)] = true
	return c05Body{stmts: ss, returns: false, shapes: sh}
}

func (g *c05Gen) retStmt() gen.Stmt {
	g.n++
	// distinct constants identify which return executed
	return &gen.Return{X: &gen.Bin{Op: "+", L: g.a, R: g.lit(int64(g.n * 100)), T: gen.I32}}
}

func (g *c05Gen) filler() gen.Stmt {
	g.n++
	name := fmt.Sprintf("w%d", g.n)
	return &gen.Let{Name: name, T: gen.I32, Init: &gen.Bin{Op: "*", L: g.b, R: g.lit(int64(1 + g.rng.IntN(5))), T: gen.I32}, Annot: true}
}

// body generates a statement list; wantReturn steers (but does not force) towards returning.
func (g *c05Gen) body(depth int, wantReturn bool, sh map[string]bool) c05Body {
	out := c05Body{shapes: sh}
	if g.rng.IntN(3) == 0 {
		out.stmts = append(out.stmts, g.filler())
	}
	if depth <= 0 {
		if wantReturn {
			out.stmts = append(out.stmts, g.retStmt())
			out.returns = true
		} else {
			out.stmts = append(out.stmts, g.filler())
		}
		return out
	}
	switch k := g.rng.IntN(13); k {
	case 11, 12: // `for v in xs` over a dynamic array that is empty for some arguments: the loop body may
		// return on every path, yet the loop itself can run zero times
		g.n++
		an, vn := fmt.Sprintf("arr%d", g.n), fmt.Sprintf("el%d", g.n)
		dt := &gen.Type{K: gen.KDyn, Elem: gen.I32}
		av := &gen.Var{Name: an, T: dt}
		inner := g.body(depth-1, true, sh)
		out.stmts = append(out.stmts,
			&gen.Let{Name: an, T: dt, Init: &gen.ArrLit{T: dt}, Annot: true},
			&gen.If{Cond: g.cond(), Then: []gen.Stmt{&gen.Append{Arr: av, Val: &gen.Bin{Op: "+", L: g.a, R: g.lit(1), T: gen.I32}}}})
		if g.rng.IntN(2) == 0 {
			out.stmts = append(out.stmts, &gen.ForDyn{Val: vn, Arr: av, Body: inner.stmts})
		} else {
			out.stmts = append(out.stmts, &gen.ForDyn{Idx: "ix" + vn, Val: vn, Arr: av, Body: inner.stmts})
		}
		out.may = inner.may
		sh["for-over-dynamic-array"] = true
		if wantReturn {
			out.stmts = append(out.stmts, g.retStmt())
			out.returns = true
		}
	case 9, 10: // `while true` around a construct whose arms end in return or break
		// the loop can only be left through a break: with a break in some arm the code after the
		// loop is reachable and needs its own return; without one the loop never completes normally
		nArms := 2 + g.rng.IntN(2)
		breaks := 0
		arm := func(forceBreak bool) []gen.Stmt {
			var ss []gen.Stmt
			if g.rng.IntN(3) == 0 {
				ss = append(ss, g.filler())
			}
			if forceBreak || g.rng.IntN(2) == 0 {
				breaks++
				return append(ss, &gen.Break{})
			}
			return append(ss, g.retStmt())
		}
		var inner gen.Stmt
		switch g.rng.IntN(3) {
		case 0: // integer match with default
			m := &gen.Match{Subj: g.b, HasDef: true}
			for v := 0; v < nArms; v++ {
				m.Arms = append(m.Arms, gen.MatchArm{Pat: g.lit(int64(v)), Body: arm(false)})
			}
			m.Default = arm(breaks == 0 && g.rng.IntN(4) != 0)
			inner = m
			sh["while-true-match-default"] = true
		case 1: // enum match covering every variant, with a default as well (exhaustive either way)
			m := &gen.Match{Subj: g.e, HasDef: true}
			for v := 0; v < len(g.enum.Variants)-1; v++ {
				m.Arms = append(m.Arms, gen.MatchArm{Pat: &gen.EnumLit{T: g.enum, V: v}, Body: arm(false)})
			}
			m.Default = arm(breaks == 0 && g.rng.IntN(4) != 0)
			inner = m
			sh["while-true-enum-match"] = true
		default: // if / else
			th := arm(false)
			inner = &gen.If{Cond: g.cond(), Then: th, Else: arm(breaks == 0 && g.rng.IntN(4) != 0)}
			sh["while-true-if-else"] = true
		}
		out.stmts = append(out.stmts, &gen.While{Cond: &gen.Lit{T: gen.TBool, I: 1}, Body: []gen.Stmt{inner}})
		if breaks == 0 {
			out.may = true // the loop never completes normally: whether code after it is required is not pinned
			out.returns = true
		} else if wantReturn {
			out.stmts = append(out.stmts, g.retStmt())
			out.returns = true
		}
	case 0: // plain trailing return (or nothing)
		if wantReturn {
			out.stmts = append(out.stmts, g.retStmt())
			out.returns = true
			sh["trailing-return"] = true
		} else {
			out.stmts = append(out.stmts, g.filler())
		}
	case 1, 2: // if / else
		th := g.body(depth-1, wantReturn, sh)
		el := g.body(depth-1, wantReturn || g.rng.IntN(3) == 0, sh)
		pre, cnd, post := g.condParts(sh)
		out.stmts = append(out.stmts, pre...)
		out.stmts = append(out.stmts, &gen.If{Cond: cnd, Then: th.stmts, Else: el.stmts})
		out.returns = th.returns && el.returns
		if !out.returns {
			out.stmts = append(out.stmts, post...)
		}
		out.may = th.may || el.may
		sh["if-else"] = true
	case 3: // if without else (+ maybe trailing return)
		th := g.body(depth-1, true, sh)
		pre, cnd, post := g.condParts(sh)
		out.stmts = append(out.stmts, pre...)
		out.stmts = append(out.stmts, &gen.If{Cond: cnd, Then: th.stmts})
		out.stmts = append(out.stmts, post...)
		out.may = th.may
		sh["if-no-else"] = true
		if wantReturn {
			rest := g.body(depth-1, true, sh)
			out.stmts = append(out.stmts, rest.stmts...)
			out.returns = rest.returns
			out.may = out.may || rest.may
		}
	case 4: // else-if chain
		a := g.body(depth-1, wantReturn, sh)
		b := g.body(depth-1, wantReturn, sh)
		var tail []gen.Stmt
		cret := false
		if g.rng.IntN(2) == 0 {
			cb := g.body(depth-1, wantReturn, sh)
			tail, cret = cb.stmts, cb.returns
			out.may = out.may || cb.may
		}
		inner := &gen.If{Cond: g.cond(), Then: b.stmts, Else: tail}
		out.stmts = append(out.stmts, &gen.If{Cond: g.cond(), Then: a.stmts, Else: []gen.Stmt{inner}})
		out.returns = a.returns && b.returns && tail != nil && cret
		out.may = out.may || a.may || b.may
		sh["else-if"] = true
	case 5: // integer match with / without default
		m := &gen.Match{Subj: g.b}
		all := true
		for v := 0; v < 1+g.rng.IntN(3); v++ {
			arm := g.body(depth-1, wantReturn, sh)
			m.Arms = append(m.Arms, gen.MatchArm{Pat: g.lit(int64(v)), Body: arm.stmts})
			all = all && arm.returns
			out.may = out.may || arm.may
		}
		if g.rng.IntN(3) != 0 {
			d := g.body(depth-1, wantReturn, sh)
			m.HasDef, m.Default = true, d.stmts
			all = all && d.returns
			out.may = out.may || d.may
			sh["int-match-default"] = true
		} else {
			all = false // no matching arm and no default: falls through
			sh["int-match-no-default"] = true
		}
		out.stmts = append(out.stmts, m)
		out.returns = all
	case 6: // enum match, maybe exhaustive without default
		m := &gen.Match{Subj: g.e}
		all := true
		exhaustive := g.rng.IntN(2) == 0
		for v := range g.enum.Variants {
			if !exhaustive && v == len(g.enum.Variants)-1 {
				break
			}
			arm := g.body(depth-1, wantReturn, sh)
			m.Arms = append(m.Arms, gen.MatchArm{Pat: &gen.EnumLit{T: g.enum, V: v}, Body: arm.stmts})
			all = all && arm.returns
			out.may = out.may || arm.may
		}
		if !exhaustive || g.rng.IntN(2) == 0 {
			d := g.body(depth-1, wantReturn, sh)
			m.HasDef, m.Default = true, d.stmts
			all = all && d.returns
			out.may = out.may || d.may
			sh["enum-match-default"] = true
		} else {
			out.may = true // the rule does not pin exhaustive enum matches without default
			sh["enum-match-exhaustive-no-default"] = true
		}
		out.stmts = append(out.stmts, m)
		out.returns = all
	case 7: // while with early return / break / continue inside: never counts as returning
		g.n++
		cn := fmt.Sprintf("i%dx", g.n)
		cv := &gen.Var{Name: cn, T: gen.I32}
		inner := g.body(depth-1, g.rng.IntN(2) == 0, sh)
		body := []gen.Stmt{&gen.Assign{LHS: cv, Op: "=", RHS: &gen.Bin{Op: "+", L: cv, R: g.lit(1), T: gen.I32}}}
		if g.rng.IntN(2) == 0 {
			var s gen.Stmt = &gen.Break{}
			if g.rng.IntN(2) == 0 {
				s = &gen.Continue{}
			}
			body = append(body, &gen.If{Cond: g.cond(), Then: []gen.Stmt{s}})
		}
		body = append(body, inner.stmts...)
		out.stmts = append(out.stmts, &gen.Let{Name: cn, T: gen.I32, Init: g.lit(0), Annot: true},
			&gen.While{Cond: &gen.Bin{Op: "<", L: cv, R: g.lit(int64(1 + g.rng.IntN(3))), T: gen.TBool}, Body: body})
		out.may = inner.may
		sh["while"] = true
		if wantReturn {
			out.stmts = append(out.stmts, g.retStmt())
			out.returns = true
		}
	default: // for over a range with an early return
		g.n++
		lo, hi, q := fmt.Sprintf("lo%d", g.n), fmt.Sprintf("hi%d", g.n), fmt.Sprintf("q%d", g.n)
		inner := g.body(depth-1, g.rng.IntN(2) == 0, sh)
		out.stmts = append(out.stmts, &gen.Let{Name: lo, T: gen.I32, Init: g.lit(0), Annot: true}, &gen.Let{Name: hi, T: gen.I32, Init: g.lit(int64(1 + g.rng.IntN(3))), Annot: true},
			&gen.ForRange{Var: q, T: gen.I32, Lo: &gen.Var{Name: lo, T: gen.I32}, Hi: &gen.Var{Name: hi, T: gen.I32}, Body: inner.stmts})
		out.may = inner.may
		sh["for-range"] = true
		if wantReturn {
			out.stmts = append(out.stmts, g.retStmt())
			out.returns = true
		}
	}
	return out
}

func checkC05(c *Ctx) error {
	r := c.R
	r.Rule = "function bodies built from nested if / else-if / else, integer match with and without default, enum match (exhaustive without default = MAY), while / for with break / continue and early returns, for over a dynamic array that is empty for some arguments, `while true` loops around if/else and exhaustive matches whose arms end in return or break, as named functions, methods and function literals, with conditions over parameters and over locals that are run-time valued at the test but constant elsewhere in the function (plus 14 directed stale-constant templates x 4 forms); each classified by a reference path analysis. MUST_REJECT bodies must be rejected (control: the same body plus a trailing return must be accepted), MUST_ACCEPT bodies must be accepted; every accepted function is called natively over the argument grid {-1,0,1,2,3}^2 x all enum variants and its printed results compared with the reference interpreter (which detects falling off the end). non-trivial = a distinct body whose verdict matched (and, if accepted, whose grid outputs matched)"
	r.Assumptions = []string{"conditions are opaque to the path analysis; `while` and `for` never count as returning; statements after a return are not generated"}
	n := c.N(320, 4000)
	enum := &gen.Type{K: gen.KEnum, Name: "Kind", Variants: []string{"A", "B", "C"}}
	recv := &gen.Type{K: gen.KStruct, Name: "Box", Fields: []gen.Field{{Name: "V", T: gen.I32}}}
	type cse struct {
		id     string
		form   string
		class  c05Class
		prog   *gen.Program
		ctrl   *gen.Program // MUST_REJECT: body + trailing return
		shapes map[string]bool
	}
	mk := func(i int) cse {
		rng := r.Rng(i)
		g := &c05Gen{rng: rng, enum: enum, a: &gen.Var{Name: "a", T: gen.I32}, b: &gen.Var{Name: "b", T: gen.I32}, e: &gen.Var{Name: "e", T: enum}}
		sh := map[string]bool{}
		var b c05Body
		if i >= n {
			b = g.directed((i-n)/4, sh)
		} else {
			b = g.body(2+rng.IntN(2), rng.IntN(4) != 0, sh)
		}
		cl := c05MustAccept
		if !b.returns {
			cl = c05MustReject
		}
		if b.may {
			cl = c05May
		}
		form := []string{"function", "method", "closure", "nested-closure"}[i%4]
		build := func(body []gen.Stmt) *gen.Program {
			p := &gen.Program{Types: []*gen.Type{enum, recv}, Features: map[string]bool{}}
			params := []gen.Param{{Name: "a", T: gen.I32}, {Name: "b", T: gen.I32}, {Name: "e", T: enum}}
			var callOf func(a, b int64, ev int) gen.Expr
			var pre []gen.Stmt
			switch form {
			case "function":
				f := &gen.Func{Name: "f", Params: params, Ret: gen.I32, Body: body}
				p.Funcs = append(p.Funcs, f)
				callOf = func(a, b int64, ev int) gen.Expr {
					return &gen.Call{Fn: f, Args: []gen.Expr{g.lit(a), g.lit(b), &gen.EnumLit{T: enum, V: ev}}}
				}
			case "method":
				f := &gen.Func{Name: "f", Recv: &gen.Param{Name: "self", T: &gen.Type{K: gen.KRef, Elem: recv}}, Params: params, Ret: gen.I32, Body: body}
				p.Funcs = append(p.Funcs, f)
				pre = append(pre, &gen.Let{Name: "bx", T: recv, Init: &gen.StructLit{T: recv, Vals: []gen.Expr{g.lit(1)}}, Annot: true})
				callOf = func(a, b int64, ev int) gen.Expr {
					return &gen.MCall{Recv: &gen.Var{Name: "bx", T: recv}, M: f, Args: []gen.Expr{g.lit(a), g.lit(b), &gen.EnumLit{T: enum, V: ev}}}
				}
			case "nested-closure":
				// the body under test is a function literal created inside another function literal
				inner := &gen.Closure{Params: params, Ret: gen.I32, Body: body}
				oa, ob, oe := &gen.Var{Name: "oa", T: gen.I32}, &gen.Var{Name: "ob", T: gen.I32}, &gen.Var{Name: "oe", T: enum}
				outer := &gen.Closure{Params: []gen.Param{{Name: "oa", T: gen.I32}, {Name: "ob", T: gen.I32}, {Name: "oe", T: enum}}, Ret: gen.I32, Body: []gen.Stmt{
					&gen.LetClosure{Name: "f", C: inner},
					&gen.Return{X: &gen.ClosureCall{Name: "f", C: inner, Args: []gen.Expr{oa, ob, oe}}},
				}}
				pre = append(pre, &gen.LetClosure{Name: "g", C: outer})
				callOf = func(a, b int64, ev int) gen.Expr {
					return &gen.ClosureCall{Name: "g", C: outer, Args: []gen.Expr{g.lit(a), g.lit(b), &gen.EnumLit{T: enum, V: ev}}}
				}
			default:
				cl := &gen.Closure{Params: params, Ret: gen.I32, Body: body}
				pre = append(pre, &gen.LetClosure{Name: "f", C: cl})
				callOf = func(a, b int64, ev int) gen.Expr {
					return &gen.ClosureCall{Name: "f", C: cl, Args: []gen.Expr{g.lit(a), g.lit(b), &gen.EnumLit{T: enum, V: ev}}}
				}
			}
			p.Main = pre
			k := 0
			for _, av := range []int64{-1, 0, 1, 2, 3} {
				for _, bv := range []int64{-1, 0, 1, 2, 3} {
					ev := k % len(enum.Variants)
					k++
					name := fmt.Sprintf("r%d", k)
					p.Main = append(p.Main, &gen.Let{Name: name, T: gen.I32, Init: callOf(av, bv, ev), Annot: true}, &gen.Print{X: &gen.Var{Name: name, T: gen.I32}})
				}
			}
			return p
		}
		cs := cse{id: fmt.Sprintf("gen:%d:%d:%s", c.Env.Seed, i, form), form: form, class: cl, prog: build(b.stmts), shapes: sh}
		if cl == c05MustReject {
			cs.ctrl = build(append(append([]gen.Stmt{}, b.stmts...), &gen.Return{X: g.lit(-7)}))
		}
		return cs
	}
	cases := make([]cse, n+4*c05Directed)
	var tcs []TC
	idx := map[int]int{}  // case -> tc index of program
	cidx := map[int]int{} // case -> tc index of control
	for i := range cases {
		cases[i] = mk(i)
		idx[i] = len(tcs)
		tcs = append(tcs, TC{ID: cases[i].id, Files: map[string]string{"main.fer": cases[i].prog.Source()}})
		if cases[i].ctrl != nil {
			cidx[i] = len(tcs)
			tcs = append(tcs, TC{ID: cases[i].id + ":control", Files: map[string]string{"main.fer": cases[i].ctrl.Source()}})
		}
	}
	results, dirs, err := c.TypecheckAll("c05", tcs)
	if err != nil {
		return err
	}
	var toRun []int
	for i, cs := range cases {
		res := results[idx[i]]
		src := tcs[idx[i]].Files["main.fer"]
		r.Eval()
		shapes := []string{}
		for s := range cs.shapes {
			shapes = append(shapes, s)
		}
		if res.Crash != "" {
			if cli, _ := c.ConfirmCLI(dirs[idx[i]]); cli.Crash != "" {
				r.Fail(core.Failure{Case: cs.id, Signature: "compiler-crash: " + cli.Crash, Detail: src, Replay: src})
			}
			continue
		}
		switch cs.class {
		case c05MustReject:
			ctrl := results[cidx[i]]
			if !ctrl.Accepted() {
				r.Inconclusive(fmt.Sprintf("%s: control (body + trailing return) not accepted: %s", cs.id, ctrl.FirstError()))
				continue
			}
			if res.Accepted() {
				if cli, _ := c.ConfirmCLI(dirs[idx[i]]); !cli.Accepted() {
					r.Inconclusive("in-process and CLI verdicts differ for " + cs.id)
					continue
				}
				r.Fail(core.Failure{Case: cs.id, Signature: "missing-return-accepted (" + cs.form + ")", Detail: fmt.Sprintf("shapes %v: a path reaches the end of a non-void %s without return, yet the program is accepted\n%s", shapes, cs.form, src), Replay: src})
				continue
			}
			if !res.CleanReject() {
				r.Fail(core.Failure{Case: cs.id, Signature: "unclean-reject", Detail: src, Replay: src})
				continue
			}
			r.Nontrivial(src)
			r.Count("must_reject_rejected."+cs.form, 1)
		case c05MustAccept:
			if !res.Accepted() {
				if cli, _ := c.ConfirmCLI(dirs[idx[i]]); cli.Accepted() {
					r.Inconclusive("in-process and CLI verdicts differ for " + cs.id)
					continue
				}
				r.Fail(core.Failure{Case: cs.id, Signature: "all-paths-return-rejected: " + core.Short(res.FirstError(), 60), Detail: fmt.Sprintf("shapes %v\n%s\n%s", shapes, res.FirstError(), src), Replay: src})
				continue
			}
			toRun = append(toRun, i)
		default:
			if res.Accepted() {
				toRun = append(toRun, i)
				r.Count("may_accepted", 1)
			} else {
				r.Count("may_rejected", 1)
				r.Nontrivial(src)
			}
		}
		for s := range cs.shapes {
			r.Count("shape."+s, 1)
		}
	}
	// run every accepted function over the grid (a share in quick)
	stride := 1
	if c.Quick() && len(toRun) > 30 {
		stride = len(toRun)/30 + 1
	}
	var sel []int
	for k, i := range toRun {
		if k%stride == 0 {
			sel = append(sel, i)
		} else {
			r.Nontrivial(tcs[idx[i]].Files["main.fer"])
			r.Count("accepted_not_executed_in_quick", 1)
		}
	}
	core.ParDo(len(sel), 5, func(k int) {
		i := sel[k]
		cs := cases[i]
		src := tcs[idx[i]].Files["main.fer"]
		exp := gen.Run(cs.prog)
		if exp.Internal != "" || exp.Timeout {
			r.Fail(core.Failure{Case: cs.id, Signature: "HARNESS generator/interpreter bug", Detail: fmt.Sprintf("%+v\n%s", exp, src), Replay: src})
			return
		}
		if exp.FellOff != "" {
			r.Fail(core.Failure{Case: cs.id, Signature: "accepted-function-falls-off-its-end (" + cs.form + ")", Detail: fmt.Sprintf("the reference interpreter reaches the end of %s without a return for some grid arguments, but the compiler accepted the program\n%s", exp.FellOff, src), Replay: src})
			return
		}
		pr, err := buildAndRun(c, "c05run", i, src, core.Native, false)
		r.Eval()
		if err != nil {
			r.Inconclusive(err.Error())
			return
		}
		if !pr.Compile.Accepted() {
			sig := "accepted-by-typecheck-but-not-built: " + core.Short(pr.Compile.FirstError(), 60)
			if pr.Compile.Crash != "" {
				sig = "compiler-crash: " + pr.Compile.Crash
			}
			r.Fail(core.Failure{Case: cs.id, Signature: sig, Detail: core.Short(core.StripANSI(pr.Compile.Proc.Stderr), 800) + "\n" + src, Replay: src})
			return
		}
		if sig, det := compareWithReference(exp, pr.Run); sig != "" {
			r.Fail(core.Failure{Case: cs.id, Signature: "returned-value-" + sig + " (" + cs.form + ")", Detail: det + "\n" + src, Replay: src})
			return
		}
		r.Nontrivial(src)
		r.Count("accepted_and_grid_equal."+cs.form, 1)
		if k < 2 {
			r.Sample(map[string]interface{}{"form": cs.form, "program": src, "grid_results": exp.Lines})
		}
	})
	_ = strings.Join
	return nil
}
