package props

import (
	"crypto/sha256"
	"encoding/hex"
	"fmt"
	"math/rand/v2"
	"os"
	"path/filepath"
	"regexp"
	"sort"
	"strings"

	"verifrig/core"
)

// C14 — compilation is deterministic under every schedule.
// Relational monitor: the same project directory is compiled K times by the hook-enabled binaries
// (ferret-verif: VERIF_SCHED perturbs the parse goroutines at points between critical sections,
// VERIF_EVENTS records the order actually taken; ferret-race adds the race detector) under
// different GOMAXPROCS, plus once by the plain binary. Exit status, stderr bytes, every gen/*.ssa
// and the .wasm bytes must be identical across runs; a race report is a violation.

func init() { register("C14", checkC14) }

type c14Project struct {
	id    string
	kind  string // ok | errors | cycle
	files map[string]string
	nmod  int
}

func c14Module(i int, imports []int, rng *rand.Rand, errLine string) string {
	var sb strings.Builder
	for _, j := range imports {
		fmt.Fprintf(&sb, "import \"{{PROJ}}/m%d\" as m%d;\n", j, j)
	}
	if len(imports) > 0 {
		sb.WriteString("\n")
	}
	fmt.Fprintf(&sb, "type S%d struct { .A: i32, .B: i64 };\ntype T%d struct { .K: i32 };\ntype Sh%d interface {\n    area() -> i32,\n};\ntype E%d enum { V0, V1, V2 };\n\n", i, i, i, i)
	fmt.Fprintf(&sb, "fn (s: S%d) area() -> i32 {\n    return s.A * %d;\n}\n\nfn (t: T%d) area() -> i32 {\n    return t.K + %d;\n}\n\n", i, i+2, i, i)
	fmt.Fprintf(&sb, "fn Pick%d(v: i32) -> E%d {\n    if v > 1 {\n        return E%d::V2;\n    }\n    return E%d::V0;\n}\n\n", i, i, i, i)
	fmt.Fprintf(&sb, "fn Calc%d(v: i32) -> i32 {\n    let k: i32 = %d;\n", i, i+1)
	nlit := 1 + rng.IntN(3)
	for l := 0; l < nlit; l++ {
		fmt.Fprintf(&sb, "    let f%d := fn(y: i32) -> i32 {\n        return y + k + %d;\n    };\n", l, l)
	}
	// a function literal capturing several locals: the capture layout must not depend on the run
	ncap := 2 + rng.IntN(4)
	for q := 0; q < ncap; q++ {
		fmt.Fprintf(&sb, "    let cap%d: i32 = v + %d;\n", q, q*3+1)
	}
	sb.WriteString("    let fcap := fn(y: i32) -> i32 {\n        return y")
	for q := ncap - 1; q >= 0; q-- {
		fmt.Fprintf(&sb, " + cap%d * %d", q, q+2)
	}
	sb.WriteString(";\n    };\n")
	fmt.Fprintf(&sb, "    let anon: struct { .P: i32, .Q: i32 } = { .P = v, .Q = %d };\n    let s: S%d = { .A = v, .B = 7 };\n    let t: T%d = { .K = v };\n    let sa: Sh%d = s;\n    let sb: Sh%d = t;\n    let acc: i32 = anon.P + anon.Q + sa.area() + sb.area();\n", i, i, i, i, i)
	sb.WriteString("    let total: i32 = acc + fcap(v)")
	for l := 0; l < nlit; l++ {
		fmt.Fprintf(&sb, " + f%d(v)", l)
	}
	for _, j := range imports {
		fmt.Fprintf(&sb, " + m%d::Calc%d(v)", j, j)
	}
	sb.WriteString(";\n")
	if errLine != "" {
		sb.WriteString("    " + errLine + "\n")
	}
	sb.WriteString("    return total;\n}\n\n")
	fmt.Fprintf(&sb, "fn Name%d() -> str {\n    return \"module-%d\";\n}\n", i, i)
	return sb.String()
}

func genC14Project(rng *rand.Rand, idx int, kind string) c14Project {
	n := 3 + rng.IntN(6) // 3..8 modules besides main
	if kind == "parse-errors" {
		n += 10 // many modules reporting at the same time
	}
	p := c14Project{id: fmt.Sprintf("gen:%d", idx), kind: kind, files: map[string]string{}, nmod: n + 1}
	errLines := []string{"let bad: i32 = undefinedName;", "let bad: str = 5;", "let bad: i32 = \"s\";", "missingFn(1);", "let bad: i8 = 300;"}
	nerr := 0
	backTo := rng.IntN(n - 1) // cycle projects: the last module imports this one, which imports the last
	hasImporter := make([]bool, n)
	for i := 0; i < n; i++ {
		var imps []int
		for j := i + 1; j < n; j++ { // DAG: only higher-numbered modules
			if kind == "parse-error-chain" {
				// m0 is a leaf with a syntax error; m1 -> m2 -> ... -> m(n-1) is a chain in which every
				// module has exactly one importer, and the last one carries a type error
				if i >= 1 && j == i+1 {
					imps = append(imps, j)
					hasImporter[j] = true
				}
				continue
			}
			if rng.IntN(3) == 0 || (kind == "cycle" && i == backTo && j == n-1) {
				imps = append(imps, j)
				hasImporter[j] = true
			}
		}
		el := ""
		if kind == "errors" && (rng.IntN(2) == 0 || (i == n-1 && nerr == 0)) {
			el = errLines[rng.IntN(len(errLines))]
			nerr++
		}
		if kind == "parse-error-chain" && i == n-1 {
			el = errLines[rng.IntN(len(errLines))]
		}
		src := c14Module(i, imps, rng, el)
		if kind == "parse-error-chain" && i == 0 {
			src = strings.Replace(src, fmt.Sprintf("fn Name%d() -> str {", i), fmt.Sprintf("fn Name%d() -> str {\n    let broken%d: i32 = ;", i, i), 1)
		}
		if kind == "parse-errors" && (i%4 != 1 || i == n-1) {
			// the same syntax error on the same line of several concurrently parsed modules
			src = strings.Replace(src, fmt.Sprintf("fn Name%d() -> str {", i), fmt.Sprintf("fn Name%d() -> str {\n    let broken%d: i32 = ;", i, i), 1)
			src = fmt.Sprintf("const zz%d: i32 = 5\n", i) + src
			// and blocks left open at the end of the file: the parser reports the same diagnostic at
			// the same place once per open block
			src += fmt.Sprintf("\nfn tail%d() {\n    if true {\n        while true {\n            {\n                {\n                    {\n                        if true {\n                            {\n                                {\n", i)
		}
		if kind == "cycle" && i == n-1 {
			src = fmt.Sprintf("import \"{{PROJ}}/m%d\" as back;\n", backTo) + src
		}
		p.files[fmt.Sprintf("m%d.fer", i)] = src
	}
	// main imports the modules nobody else imports (and a few more): most modules are reachable only
	// through a chain of other modules, some through exactly one importer
	var sb strings.Builder
	sb.WriteString("import \"std/io\";\n")
	fromMain := make([]bool, n)
	for i := 0; i < n; i++ {
		fromMain[i] = !hasImporter[i] || rng.IntN(4) == 0 || kind == "parse-errors" // parse-error projects are flat: all modules report at the same time
		if fromMain[i] {
			fmt.Fprintf(&sb, "import \"{{PROJ}}/m%d\" as m%d;\n", i, i)
		}
	}
	// at least two modules start from main, so that there is more than one possible parse order
	for cnt, i := 0, n-1; i >= 0; i-- {
		if fromMain[i] {
			cnt++
		}
		if i == 0 && cnt < 2 {
			for j := n - 1; j >= 0 && cnt < 2; j-- {
				if !fromMain[j] {
					fromMain[j] = true
					fmt.Fprintf(&sb, "import \"{{PROJ}}/m%d\" as m%d;\n", j, j)
					cnt++
				}
			}
		}
	}
	sb.WriteString("\nfn main() {\n")
	for i := 0; i < n; i++ {
		if !fromMain[i] {
			continue
		}
		fmt.Fprintf(&sb, "    let c%d := m%d::Calc%d(%d);\n    io::Println(c%d);\n    let n%d := m%d::Name%d();\n    io::Println(n%d);\n", i, i, i, i+1, i, i, i, i, i)
	}
	sb.WriteString("    let lam := fn(y: i32) -> i32 {\n        return y * 3;\n    };\n    let z := lam(4);\n    io::Println(z);\n")
	if kind == "errors" {
		sb.WriteString("    let alsoBad: bool = 1;\n")
	}
	sb.WriteString("}\n")
	p.files["main.fer"] = sb.String()
	return p
}

var raceBlock = regexp.MustCompile(`(?s)WARNING: DATA RACE.*?={18}`)

func hashBytes(b []byte) string {
	h := sha256.Sum256(b)
	return hex.EncodeToString(h[:8])
}

type c14Obs struct {
	label  string
	exit   int
	stderr string
	files  map[string]string // relative path -> hash
	sched  string            // order of parse.start events
	output []string          // program output (first run only)
}

func checkC14(c *Ctx) error {
	r := c.R
	r.Rule = "generated projects of 4-9 modules (main imports only the modules nobody else imports plus a few more, so most modules are reachable only through chains and some through exactly one importer; function literals in every module, anonymous struct types, interfaces with two implementers per module, enums, strings; closures capturing 2-5 locals; one third with type errors in several files, one sixth with the same syntax errors on the same lines of several modules (missing operands and semicolons, and several blocks left open at the end of the file, i.e. one diagnostic repeated at one place), one sixth a leaf with a syntax error next to a chain of modules with exactly one importer each (the last one with a type error), one sixth with an import cycle) compiled repeatedly in the same directory: ferret-verif with distinct (GOMAXPROCS in {1,2,4,16}, VERIF_SCHED seed) for native (-keep-gen) and wasm, ferret-race (race detector) and the plain ferret (failing projects: 12 / 30 further runs of the plain binary under GOMAXPROCS 16/8/4); all observations (exit status, stderr bytes, each gen/*.ssa, .wasm bytes) must be identical; non-trivial = a distinct project for which >=2 distinct parse orders were actually observed in the event log and all runs agreed"
	r.Assumptions = []string{"the hooks only yield/sleep between critical sections of parseModule and log events; they never change data", "runs of one project share the directory, so absolute paths in diagnostics are identical by construction"}
	nProj := c.N(6, 90)
	nSched := c.N(4, 14)
	nRace := c.N(1, 3)
	plain, err := c.Env.Ferret()
	if err != nil {
		return err
	}
	verif, err := c.Env.FerretVerif()
	if err != nil {
		return err
	}
	race, err := c.Env.FerretRace()
	if err != nil {
		return err
	}
	libs, err := c.Env.Libs()
	if err != nil {
		return err
	}
	gmps := []string{"1", "2", "4", "16"}
	core.ParDo(nProj+1, 4, func(pi int) {
		rng := r.Rng(pi)
		kind := "ok"
		switch pi % 6 {
		case 2:
			kind = "parse-error-chain"
		case 1, 4:
			kind = "errors"
		case 3:
			kind = "parse-errors"
		case 5:
			kind = "cycle"
		}
		proj := genC14Project(rng, pi, kind)
		proj.id = fmt.Sprintf("gen:%d:%d:%s", c.Env.Seed, pi, kind)
		pinnedCycle := false
		if pi == nProj { // pinned probe: a fixed 3-module cycle compiled under the same schedules
			pinnedCycle = true
			proj = c14Project{id: "probe:cycle-diagnostics", kind: "cycle", nmod: 4, files: map[string]string{
				"main.fer": "import \"std/io\";\nimport \"{{PROJ}}/a\" as a;\nimport \"{{PROJ}}/b\" as b;\nimport \"{{PROJ}}/c\" as c;\n\nfn main() {\n    io::Println(a::A() + b::B() + c::C());\n}\n",
				"a.fer":    "import \"{{PROJ}}/b\" as b;\n\nfn A() -> i32 {\n    return b::B() + 1;\n}\n",
				"b.fer":    "import \"{{PROJ}}/c\" as c;\n\nfn B() -> i32 {\n    return c::C() + 1;\n}\n",
				"c.fer":    "import \"{{PROJ}}/a\" as a;\n\nfn C() -> i32 {\n    return a::A() + 1;\n}\n",
			}}
		}
		dir := c.Env.CaseDir("c14", fmt.Sprintf("p%d", pi))
		for rel, content := range proj.files {
			core.WriteFile(filepath.Join(dir, rel), strings.ReplaceAll(content, "{{PROJ}}", filepath.Base(dir)))
		}
		entry := filepath.Join(dir, "main.fer")
		observe := func(label, bin string, target core.Target, env []string) c14Obs {
			os.RemoveAll(filepath.Join(dir, "gen"))
			evf := filepath.Join(dir, "events.log")
			os.Remove(evf)
			env = append(env, "VERIF_EVENTS="+evf)
			res := core.Compile(core.CompileOpts{Binary: bin, Libs: libs, Target: target, KeepGen: target == core.Native, Env: env, CPUSecs: 60}, entry)
			r.Eval()
			o := c14Obs{label: label, exit: res.Proc.Exit, stderr: res.Proc.Stderr + res.Proc.Stdout, files: map[string]string{}}
			if target == core.Native {
				m, _ := filepath.Glob(filepath.Join(dir, "gen", "*.ssa"))
				sort.Strings(m)
				for _, f := range m {
					b, _ := os.ReadFile(f)
					o.files["gen/"+filepath.Base(f)] = hashBytes(b)
				}
			} else if b, err := os.ReadFile(res.Artifact); err == nil {
				o.files["out.wasm"] = hashBytes(b)
			}
			if b, err := os.ReadFile(evf); err == nil {
				var order []string
				for _, l := range strings.Split(string(b), "\n") {
					f := strings.Fields(l)
					if len(f) == 4 && f[2] == "parse.start" {
						order = append(order, f[3])
					}
				}
				o.sched = strings.Join(order, ",")
			}
			if res.Crash != "" {
				o.stderr = "CRASH " + res.Crash
			}
			return o
		}
		groups := map[core.Target][]c14Obs{}
		scheds := map[string]bool{}
		add := func(t core.Target, o c14Obs) {
			groups[t] = append(groups[t], o)
			if o.sched != "" {
				scheds[o.sched] = true
			}
		}
		add(core.Native, observe("plain", plain, core.Native, nil))
		for k := 0; k < nSched; k++ {
			g := gmps[(k+pi)%len(gmps)]
			seed := fmt.Sprint(1 + k*7919 + pi*104729 + int(c.Env.Seed)*1000003)
			env := []string{"GOMAXPROCS=" + g, "VERIF_SCHED=" + seed}
			t := core.Native
			if k%3 == 2 {
				t = core.Wasm
			}
			add(t, observe(fmt.Sprintf("verif gomaxprocs=%s sched=%s", g, seed), verif, t, env))
		}
		add(core.Wasm, observe("plain-wasm", plain, core.Wasm, nil))
		// projects that fail stop before code generation, so many more runs of them are cheap: the
		// plain binary under its natural scheduling (the hook's delays tend to serialise the parsers)
		if proj.kind != "ok" {
			for k := 0; k < c.N(12, 30); k++ {
				g := []string{"16", "8", "4"}[k%3]
				add(core.Native, observe(fmt.Sprintf("plain gomaxprocs=%s #%d", g, k), plain, core.Native, []string{"GOMAXPROCS=" + g}))
			}
		}
		// race detector runs
		raceReports := 0
		for k := 0; k < nRace; k++ {
			g := gmps[(k+1+pi)%len(gmps)]
			if g == "1" {
				g = "4"
			}
			logp := filepath.Join(dir, fmt.Sprintf("race%d.log", k))
			env := []string{"GOMAXPROCS=" + g, "VERIF_SCHED=" + fmt.Sprint(77+k+pi), "GORACE=halt_on_error=0 log_path=" + logp}
			o := observe(fmt.Sprintf("race gomaxprocs=%s", g), race, core.Native, env)
			add(core.Native, o)
			m, _ := filepath.Glob(logp + "*")
			for _, f := range m {
				b, _ := os.ReadFile(f)
				for _, blk := range raceBlock.FindAllString(string(b), -1) {
					raceReports++
					r.Fail(core.Failure{Case: proj.id + ":race", Signature: "data-race " + raceSite(blk), Detail: core.Short(blk, 3000), Replay: proj.files})
				}
			}
		}
		r.Count("race_detector_runs", nRace)
		// compare within each target group
		agree := true
		if proj.kind == "cycle" && !pinnedCycle {
			// which edge closes the cycle depends on the parse order, and with it the diagnostics
			// (known finding kf-C14-cycle, pinned by the probe project): generated cyclic projects
			// are compared on exit status and on the presence of the circular-import error only
			for t, obs := range groups {
				for i := range obs {
					if strings.Contains(obs[i].stderr, "circular import detected") {
						obs[i].stderr = "circular import detected"
					}
					obs[i].files = map[string]string{}
				}
				groups[t] = obs
			}
		}
		for t, obs := range groups {
			ref := obs[0]
			for _, o := range obs[1:] {
				diff := ""
				switch {
				case o.exit != ref.exit:
					diff = fmt.Sprintf("exit status %d vs %d", ref.exit, o.exit)
				case o.stderr != ref.stderr:
					diff = "diagnostics differ:\n--- " + ref.label + "\n" + core.Short(core.StripANSI(ref.stderr), 800) + "\n--- " + o.label + "\n" + core.Short(core.StripANSI(o.stderr), 800)
				default:
					var names []string
					for n := range ref.files {
						names = append(names, n)
					}
					for n := range o.files {
						if _, ok := ref.files[n]; !ok {
							names = append(names, n)
						}
					}
					sort.Strings(names)
					for _, n := range names {
						if ref.files[n] != o.files[n] {
							diff = fmt.Sprintf("generated file %s differs (%s vs %s)", n, ref.files[n], o.files[n])
							break
						}
					}
				}
				if diff != "" {
					agree = false
					r.Fail(core.Failure{Case: proj.id, Signature: "nondeterministic-" + string(t) + ": " + strings.SplitN(diff, " ", 3)[0] + " " + strings.SplitN(diff+" ", " ", 3)[1], Detail: fmt.Sprintf("project kind=%s modules=%d target=%s\nrun A: %s\nrun B: %s\n%s", proj.kind, proj.nmod, t, ref.label, o.label, diff), Replay: proj.files})
					break
				}
			}
		}
		// sanity of the project kinds (the workload must exercise what it claims)
		ref := groups[core.Native][0]
		switch proj.kind {
		case "ok":
			if ref.exit != 0 {
				r.Inconclusive(fmt.Sprintf("%s: an 'ok' project was rejected: %s", proj.id, core.Short(core.StripANSI(ref.stderr), 300)))
				return
			}
		case "errors", "cycle", "parse-errors":
			if ref.exit == 0 {
				r.Inconclusive(proj.id + ": a failing project was accepted")
				return
			}
		}
		r.Count("distinct_parse_orders", len(scheds))
		r.Count("projects."+proj.kind, 1)
		if agree && raceReports == 0 {
			if len(scheds) >= 2 {
				r.Nontrivial(proj.id + proj.files["main.fer"])
			} else {
				r.Inconclusive(fmt.Sprintf("%s: only %d distinct parse order(s) observed", proj.id, len(scheds)))
			}
		}
		if pi < 2 {
			var so []string
			for s := range scheds {
				so = append(so, s)
			}
			sort.Strings(so)
			r.Sample(map[string]interface{}{"project": proj.id, "modules": proj.nmod, "kind": proj.kind, "parse_orders_seen": so, "main.fer": core.Short(proj.files["main.fer"], 500)})
		}
	})
	return nil
}

var raceFrame = regexp.MustCompile(`(?m)^  (compiler/[^\s(]+)`)

func raceSite(blk string) string {
	m := raceFrame.FindAllStringSubmatch(blk, 2)
	var s []string
	for _, x := range m {
		s = append(s, x[1])
	}
	return strings.Join(s, " / ")
}
