package props

import (
	"fmt"
	"math/big"
	"math/rand/v2"
	"path/filepath"
	"strings"

	"verifrig/core"
)

// C16 end-to-end layer: generated Ferret programs whose i128/u128/i256/u256 operators, comparisons,
// casts, compound assignments, by-value passing and aggregate stores are lowered by the real compiler
// (emitLargeBinary / emitLargeCompare / emitLargeCast / emitLargeConst) to the *_ptr helpers, linked
// with the real runtime and executed; every printed value is compared with math/big reduced mod 2^N.

type e2eTy struct {
	name   string
	bits   int
	signed bool
}

func (t e2eTy) large() bool { return t.bits > 64 }

func (t e2eTy) wrap(v *big.Int) *big.Int {
	m := new(big.Int).Lsh(big.NewInt(1), uint(t.bits))
	r := new(big.Int).Mod(v, m)
	if t.signed && r.Bit(t.bits-1) == 1 {
		r.Sub(r, m)
	}
	return r
}

var e2eSmall = []e2eTy{{"i8", 8, true}, {"u8", 8, false}, {"i16", 16, true}, {"u16", 16, false}, {"i32", 32, true}, {"u32", 32, false}, {"i64", 64, true}, {"u64", 64, false}}
var e2eLarge = []e2eTy{{"i128", 128, true}, {"u128", 128, false}, {"i256", 256, true}, {"u256", 256, false}}

type e2eVar struct {
	name string
	ty   e2eTy
	val  *big.Int
}

type e2eLine struct {
	expect string
	what   string // the statement group that printed it
}

type e2eProg struct {
	rng    *rand.Rand
	body   strings.Builder
	lines  []e2eLine
	vars   []e2eVar
	n      int
	kinds  map[string]int
}

func (p *e2eProg) fresh(prefix string) string {
	p.n++
	return fmt.Sprintf("%s%d", prefix, p.n)
}

func (p *e2eProg) emit(format string, a ...interface{}) {
	p.body.WriteString("    ")
	fmt.Fprintf(&p.body, format, a...)
	p.body.WriteString("\n")
}

func (p *e2eProg) print(name, expect, what string) {
	p.emit("io::Println(%s);", name)
	p.lines = append(p.lines, e2eLine{expect, what})
}

// genVal draws a value of the type: boundary-weighted.
func (p *e2eProg) genVal(t e2eTy) *big.Int {
	rng := p.rng
	if t.large() {
		bt := bigTy{t.name, t.bits, t.signed}
		return t.wrap(genBig(rng, bt))
	}
	one := big.NewInt(1)
	max := new(big.Int).Lsh(one, uint(t.bits))
	switch rng.IntN(6) {
	case 0:
		return t.wrap(big.NewInt(int64(rng.IntN(21) - 10)))
	case 1:
		return t.wrap(new(big.Int).Sub(max, big.NewInt(int64(1+rng.IntN(3))))) // -1.. / max unsigned
	case 2:
		h := new(big.Int).Rsh(max, 1)
		return t.wrap(new(big.Int).Add(h, big.NewInt(int64(rng.IntN(3)-1)))) // around the sign boundary
	default:
		return t.wrap(new(big.Int).SetUint64(rng.Uint64()))
	}
}

// declare a literal-initialised variable; opaque => routed through an identity function so that no
// compile-time constant knowledge reaches its uses.
func (p *e2eProg) newVar(t e2eTy, v *big.Int, opaque bool) e2eVar {
	name := p.fresh("v")
	if opaque {
		p.emit("let %s := id%s(%s);", name, t.name, v.String())
	} else {
		p.emit("let %s: %s = %s;", name, t.name, v.String())
	}
	x := e2eVar{name, t, v}
	p.vars = append(p.vars, x)
	return x
}

func (p *e2eProg) operand(t e2eTy) e2eVar {
	// reuse an existing variable of the type half of the time
	var cands []e2eVar
	for _, v := range p.vars {
		if v.ty.name == t.name {
			cands = append(cands, v)
		}
	}
	if len(cands) > 0 && p.rng.IntN(2) == 0 {
		return cands[p.rng.IntN(len(cands))]
	}
	return p.newVar(t, p.genVal(t), p.rng.IntN(2) == 0)
}

func (p *e2eProg) nonzero(t e2eTy) e2eVar {
	for k := 0; k < 20; k++ {
		v := p.operand(t)
		if v.val.Sign() != 0 {
			return v
		}
	}
	return p.newVar(t, big.NewInt(3), true)
}

func truncQuo(a, b *big.Int) *big.Int { return new(big.Int).Quo(a, b) }
func truncRem(a, b *big.Int) *big.Int { return new(big.Int).Rem(a, b) }

func (p *e2eProg) bin(t e2eTy, op string, a, b *big.Int) *big.Int {
	switch op {
	case "+":
		return t.wrap(new(big.Int).Add(a, b))
	case "-":
		return t.wrap(new(big.Int).Sub(a, b))
	case "*":
		return t.wrap(new(big.Int).Mul(a, b))
	case "/":
		return t.wrap(truncQuo(a, b))
	case "%":
		return t.wrap(truncRem(a, b))
	}
	panic(op)
}

func (p *e2eProg) record(v e2eVar) { p.vars = append(p.vars, v) }

func bs(b bool) string {
	if b {
		return "true"
	}
	return "false"
}

// nested builds an expression tree over variables of t; returns text and value.
func (p *e2eProg) nested(t e2eTy, depth int) (string, *big.Int) {
	if depth == 0 || p.rng.IntN(4) == 0 {
		v := p.operand(t)
		return v.name, v.val
	}
	ops := []string{"+", "-", "*", "+", "-", "*", "/", "%"}
	op := ops[p.rng.IntN(len(ops))]
	ls, lv := p.nested(t, depth-1)
	if op == "/" || op == "%" {
		d := p.nonzero(t)
		return fmt.Sprintf("(%s %s %s)", ls, op, d.name), p.bin(t, op, lv, d.val)
	}
	rs, rv := p.nested(t, depth-1)
	return fmt.Sprintf("(%s %s %s)", ls, op, rs), p.bin(t, op, lv, rv)
}

func (p *e2eProg) step() {
	rng := p.rng
	T := e2eLarge[rng.IntN(len(e2eLarge))]
	kind := []string{"lit", "bin", "bin", "bin", "cmp", "cmp", "neg", "nested", "nested", "pow", "s2l", "s2l", "l2s", "l2s", "l2l", "l2l", "compound", "call", "struct", "array", "loop", "if", "opaque", "incdec", "refwrite", "refparam"}[rng.IntN(26)]
	p.kinds[kind]++
	switch kind {
	case "lit":
		v := p.newVar(T, p.genVal(T), false)
		p.print(v.name, v.val.String(), "literal "+T.name)
	case "opaque":
		a := p.operand(T)
		n := p.fresh("v")
		p.emit("let %s := id%s(%s);", n, T.name, a.name)
		p.record(e2eVar{n, T, a.val})
		p.print(n, a.val.String(), "identity call "+T.name)
	case "bin":
		op := []string{"+", "-", "*", "/", "%"}[rng.IntN(5)]
		a := p.operand(T)
		var b e2eVar
		if op == "/" || op == "%" {
			b = p.nonzero(T)
		} else {
			b = p.operand(T)
		}
		r := p.bin(T, op, a.val, b.val)
		n := p.fresh("v")
		p.emit("let %s := %s %s %s;", n, a.name, op, b.name)
		p.record(e2eVar{n, T, r})
		p.print(n, r.String(), fmt.Sprintf("%s: %s %s %s", T.name, a.val, op, b.val))
	case "cmp":
		op := []string{"==", "!=", "<", ">", "<=", ">="}[rng.IntN(6)]
		a := p.operand(T)
		b := p.operand(T)
		if rng.IntN(4) == 0 { // equal operands, different variables
			b = p.newVar(T, a.val, rng.IntN(2) == 0)
		}
		c := a.val.Cmp(b.val)
		var res bool
		switch op {
		case "==":
			res = c == 0
		case "!=":
			res = c != 0
		case "<":
			res = c < 0
		case ">":
			res = c > 0
		case "<=":
			res = c <= 0
		case ">=":
			res = c >= 0
		}
		n := p.fresh("b")
		p.emit("let %s := %s %s %s;", n, a.name, op, b.name)
		p.print(n, bs(res), fmt.Sprintf("%s: %s %s %s", T.name, a.val, op, b.val))
	case "neg":
		if !T.signed {
			T = e2eLarge[0+2*rng.IntN(2)]
		}
		a := p.operand(T)
		r := T.wrap(new(big.Int).Neg(a.val))
		n := p.fresh("v")
		p.emit("let %s := -%s;", n, a.name)
		p.record(e2eVar{n, T, r})
		p.print(n, r.String(), fmt.Sprintf("%s: -(%s)", T.name, a.val))
	case "nested":
		s, v := p.nested(T, 3)
		n := p.fresh("v")
		p.emit("let %s := %s;", n, s)
		p.record(e2eVar{n, T, v})
		p.print(n, v.String(), "nested "+T.name+" "+s)
	case "pow":
		a := p.operand(T)
		var e int64
		switch rng.IntN(4) {
		case 0:
			e = int64(rng.IntN(3))
		case 1:
			e = int64(rng.IntN(20))
		case 2:
			e = int64(60 + rng.IntN(10))
		default:
			e = int64(rng.IntN(300))
		}
		ev := p.newVar(T, big.NewInt(e), rng.IntN(2) == 0)
		m := new(big.Int).Lsh(big.NewInt(1), uint(T.bits))
		r := T.wrap(new(big.Int).Exp(new(big.Int).Mod(a.val, m), big.NewInt(e), m))
		n := p.fresh("v")
		p.emit("let %s := %s ** %s;", n, a.name, ev.name)
		p.record(e2eVar{n, T, r})
		p.print(n, r.String(), fmt.Sprintf("%s: %s ** %d", T.name, a.val, e))
	case "s2l":
		S := e2eSmall[rng.IntN(len(e2eSmall))]
		s := p.newVar(S, p.genVal(S), rng.IntN(2) == 0)
		r := T.wrap(s.val)
		n := p.fresh("v")
		p.emit("let %s := %s as %s;", n, s.name, T.name)
		p.record(e2eVar{n, T, r})
		p.print(n, r.String(), fmt.Sprintf("%s %s as %s", S.name, s.val, T.name))
	case "l2s":
		S := e2eSmall[rng.IntN(len(e2eSmall))]
		a := p.operand(T)
		r := S.wrap(a.val)
		n := p.fresh("s")
		p.emit("let %s := %s as %s;", n, a.name, S.name)
		p.print(n, r.String(), fmt.Sprintf("%s %s as %s", T.name, a.val, S.name))
	case "l2l":
		U := e2eLarge[rng.IntN(len(e2eLarge))]
		if U.name == T.name {
			U = e2eLarge[(rng.IntN(3)+1+idxOfLarge(T))%4]
		}
		a := p.operand(T)
		r := U.wrap(a.val)
		n := p.fresh("v")
		p.emit("let %s := %s as %s;", n, a.name, U.name)
		p.record(e2eVar{n, U, r})
		p.print(n, r.String(), fmt.Sprintf("%s %s as %s", T.name, a.val, U.name))
	case "compound":
		a := p.operand(T)
		n := p.fresh("m")
		p.emit("let %s := %s;", n, a.name)
		cur := new(big.Int).Set(a.val)
		k := 1 + rng.IntN(4)
		desc := fmt.Sprintf("%s: %s", T.name, a.val)
		for i := 0; i < k; i++ {
			op := []string{"+", "-", "*", "/", "%"}[rng.IntN(5)]
			var b e2eVar
			if op == "/" || op == "%" {
				b = p.nonzero(T)
			} else {
				b = p.operand(T)
			}
			p.emit("%s %s= %s;", n, op, b.name)
			cur = p.bin(T, op, cur, b.val)
			desc += fmt.Sprintf(" %s= %s", op, b.val)
		}
		p.print(n, cur.String(), "compound "+desc)
		p.print(a.name, a.val.String(), "source of a copied "+T.name+" unchanged after compound assignment to the copy")
	case "incdec":
		a := p.operand(T)
		n := p.fresh("m")
		p.emit("let %s := %s;", n, a.name)
		cur := new(big.Int).Set(a.val)
		k := 1 + rng.IntN(3)
		for i := 0; i < k; i++ {
			if rng.IntN(2) == 0 {
				p.emit("%s++;", n)
				cur = T.wrap(new(big.Int).Add(cur, big.NewInt(1)))
			} else {
				p.emit("%s--;", n)
				cur = T.wrap(new(big.Int).Sub(cur, big.NewInt(1)))
			}
		}
		p.print(n, cur.String(), fmt.Sprintf("%s: ++/-- from %s", T.name, a.val))
	case "call":
		a, b, c := p.operand(T), p.operand(T), p.operand(T)
		r := p.bin(T, "+", a.val, p.bin(T, "*", b.val, c.val))
		n := p.fresh("v")
		p.emit("let %s := mad%s(%s, %s, %s);", n, T.name, a.name, b.name, c.name)
		p.record(e2eVar{n, T, r})
		p.print(n, r.String(), fmt.Sprintf("mad%s(%s, %s, %s) = a + b * c by value", T.name, a.val, b.val, c.val))
	case "struct":
		a, b := p.operand(T), p.operand(T)
		n := p.fresh("bx")
		pv, qv := int64(rng.IntN(256)-128), int64(rng.IntN(65536)-32768)
		p.emit("let %s := { .P = %d, .V = %s, .Q = %d } as Box%s;", n, pv, a.name, qv, T.name)
		op := []string{"+", "-", "*"}[rng.IntN(3)]
		p.emit("%s.V = %s.V %s %s;", n, n, op, b.name)
		r := p.bin(T, op, a.val, b.val)
		t1, t2, t3 := p.fresh("f"), p.fresh("f"), p.fresh("f")
		p.emit("let %s := %s.V;", t1, n)
		p.print(t1, r.String(), fmt.Sprintf("struct field %s: %s %s %s", T.name, a.val, op, b.val))
		p.emit("let %s := %s.P;", t2, n)
		p.print(t2, fmt.Sprint(pv), "i8 neighbour before a "+T.name+" field")
		p.emit("let %s := %s.Q;", t3, n)
		p.print(t3, fmt.Sprint(qv), "i16 neighbour after a "+T.name+" field")
	case "array":
		a, b, c := p.operand(T), p.operand(T), p.operand(T)
		n := p.fresh("ar")
		p.emit("let %s: [3]%s = [%s, %s, %s];", n, T.name, a.name, b.name, c.name)
		op := []string{"+", "-", "*"}[rng.IntN(3)]
		p.emit("%s[1] = %s[0] %s %s[2];", n, n, op, n)
		r := p.bin(T, op, a.val, c.val)
		for i, ex := range []*big.Int{a.val, r, c.val} {
			t := p.fresh("e")
			p.emit("let %s := %s[%d];", t, n, i)
			p.print(t, ex.String(), fmt.Sprintf("[3]%s element %d after a[1] = a[0] %s a[2]", T.name, i, op))
		}
	case "loop":
		a, b, c := p.operand(T), p.operand(T), p.operand(T)
		n := p.fresh("acc")
		k := 1 + rng.IntN(6)
		p.emit("let %s := %s;", n, a.name)
		iv := p.fresh("i")
		p.emit("for %s in 0..%d {", iv, k)
		p.emit("    %s = %s * %s + %s;", n, n, b.name, c.name)
		p.emit("}")
		cur := new(big.Int).Set(a.val)
		for i := 0; i < k; i++ {
			cur = p.bin(T, "+", p.bin(T, "*", cur, b.val), c.val)
		}
		p.print(n, cur.String(), fmt.Sprintf("%s: %d iterations of acc = acc * %s + %s from %s", T.name, k, b.val, c.val, a.val))
	case "refwrite":
		a, b := p.operand(T), p.operand(T)
		n, rn := p.fresh("z"), p.fresh("r")
		p.emit("let %s := %s;", n, a.name)
		p.emit("let %s: &'%s = &'%s;", rn, T.name, n)
		p.emit("%s = %s;", rn, b.name)
		p.print(n, b.val.String(), fmt.Sprintf("write of %s through a &'%s reference is visible in the referent", b.val, T.name))
		p.print(a.name, a.val.String(), "the variable the referent was copied from keeps its value")
	case "refparam":
		a, b := p.operand(T), p.operand(T)
		n := p.fresh("z")
		p.emit("let %s := %s;", n, a.name)
		p.emit("addInto%s(&'%s, %s);", T.name, n, b.name)
		r := p.bin(T, "+", b.val, big.NewInt(1))
		p.print(n, r.String(), fmt.Sprintf("addInto%s(&'z, b): z = %s; z = z + 1 through a &'%s parameter (z was %s)", T.name, b.val, T.name, a.val))
		t := p.fresh("s")
		p.emit("let %s := peek%s(&%s);", t, T.name, n)
		p.print(t, r.String(), "read through a &"+T.name+" parameter")
	case "if":
		a, b := p.operand(T), p.operand(T)
		op := []string{"<", ">", "<=", ">=", "==", "!="}[rng.IntN(6)]
		c := a.val.Cmp(b.val)
		res := map[string]bool{"<": c < 0, ">": c > 0, "<=": c <= 0, ">=": c >= 0, "==": c == 0, "!=": c != 0}[op]
		n := p.fresh("r")
		p.emit("let %s: i32 = 0;", n)
		p.emit("if %s %s %s {", a.name, op, b.name)
		p.emit("    %s = 1;", n)
		p.emit("} else {")
		p.emit("    %s = 2;", n)
		p.emit("}")
		ex := "2"
		if res {
			ex = "1"
		}
		p.print(n, ex, fmt.Sprintf("branch on %s: %s %s %s", T.name, a.val, op, b.val))
	}
}

func idxOfLarge(t e2eTy) int {
	for i, x := range e2eLarge {
		if x.name == t.name {
			return i
		}
	}
	return 0
}

func e2ePrelude() string {
	var sb strings.Builder
	sb.WriteString("import \"std/io\";\n\n")
	for _, t := range append(append([]e2eTy{}, e2eSmall...), e2eLarge...) {
		fmt.Fprintf(&sb, "fn id%s(x: %s) -> %s {\n    return x;\n}\n\n", t.name, t.name, t.name)
	}
	for _, t := range e2eLarge {
		fmt.Fprintf(&sb, "fn mad%s(a: %s, b: %s, c: %s) -> %s {\n    return a + b * c;\n}\n\n", t.name, t.name, t.name, t.name, t.name)
		fmt.Fprintf(&sb, "fn addInto%s(r: &'%s, d: %s) {\n    r = d;\n    r = r + 1;\n}\n\n", t.name, t.name, t.name)
		fmt.Fprintf(&sb, "fn peek%s(r: &%s) -> %s {\n    return r + 0;\n}\n\n", t.name, t.name, t.name)
		fmt.Fprintf(&sb, "type Box%s struct {\n    .P: i8,\n    .V: %s,\n    .Q: i16,\n};\n\n", t.name, t.name)
	}
	return sb.String()
}

func genE2EProgram(rng *rand.Rand, steps int) (string, []e2eLine, map[string]int) {
	p := &e2eProg{rng: rng, kinds: map[string]int{}}
	for i := 0; i < steps; i++ {
		p.step()
	}
	return e2ePrelude() + "fn main() {\n" + p.body.String() + "}\n", p.lines, p.kinds
}

func runC16EndToEnd(c *Ctx) error {
	r := c.R
	bin, err := c.Env.Ferret()
	if err != nil {
		return err
	}
	libs, err := c.Env.Libs()
	if err != nil {
		return err
	}
	runProbes(c, "C16", core.Native)
	nprog := c.N(48, 1600)
	core.ParDo(nprog, 0, func(i int) {
		rng := core.CaseRng(c.Env.Seed, "C16-e2e", i)
		src, lines, kinds := genE2EProgram(rng, 14+rng.IntN(10))
		id := fmt.Sprintf("e2e:%d:%d", c.Env.Seed, i)
		d := c.Env.CaseDir("c16e2e", fmt.Sprintf("p%d", i))
		f := filepath.Join(d, "main.fer")
		core.WriteFile(f, src)
		res := core.Compile(core.CompileOpts{Binary: bin, Libs: libs, Target: core.Native, CPUSecs: 30}, f)
		r.Eval()
		if !res.Accepted() {
			sig := "large-int-program-rejected: " + core.Short(res.FirstError(), 100)
			if res.Crash != "" {
				sig = "compiler-crash: " + res.Crash
			}
			r.Fail(core.Failure{Case: id, Signature: sig, Detail: core.Short(core.StripANSI(res.Proc.Stderr), 1200) + "\n" + src, Replay: src})
			return
		}
		run := core.RunNative(res.Artifact, 20)
		if run.Kind != core.RunExit0 {
			if run.Kind == core.RunTimeout {
				r.Inconclusive("wall watchdog on " + id)
				return
			}
			r.Fail(core.Failure{Case: id, Signature: "large-int-program-run-" + string(run.Kind), Detail: core.Short(run.Proc.Stderr, 400) + "\n" + src, Replay: src})
			return
		}
		if len(run.Lines) != len(lines) {
			r.Fail(core.Failure{Case: id, Signature: "large-int-program-line-count", Detail: fmt.Sprintf("printed %d lines, expected %d\n%s", len(run.Lines), len(lines), src), Replay: src})
			return
		}
		bad := 0
		for k, l := range lines {
			r.Eval()
			if run.Lines[k] != l.expect {
				bad++
				if bad == 1 {
					r.Fail(core.Failure{Case: id, Signature: "large-int-value-wrong: " + strings.SplitN(l.what, ":", 2)[0], Detail: fmt.Sprintf("line %d (%s): program printed %s, math/big says %s\n%s", k+1, l.what, core.Short(run.Lines[k], 100), l.expect, src), Replay: src})
				}
				continue
			}
			r.Count("e2e_values_equal", 1)
		}
		if bad == 0 {
			r.Nontrivial(id + src)
			r.Count("e2e_programs_equal", 1)
		}
		for k, n := range kinds {
			r.Count("e2e_kind_"+k, n)
		}
		if i < 2 {
			r.Sample(map[string]interface{}{"e2e_program": core.Short(src[strings.Index(src, "fn main()"):], 900), "lines": len(lines)})
		}
	})
	return nil
}
