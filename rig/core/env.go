// Package core is the shared rig: builds everything a check needs from /repo's
// current working tree, runs child processes under CPU/wall watchdogs, spreads
// cases over the cores, collects failures, applies the known-findings protocol
// and writes the evidence file.
package core

import (
	"bytes"
	"crypto/sha256"
	"encoding/hex"
	"fmt"
	"io"
	"io/fs"
	"os"
	"os/exec"
	"path/filepath"
	"runtime"
	"sort"
	"strconv"
	"strings"
	"sync"
	"time"
)

// Env holds the per-run build products. Everything is built lazily into a fresh
// scratch directory outside /repo and /verif and removed by Close.
type Env struct {
	Repo  string // /repo (or $VERIF_REPO)
	Verif string // /verif
	Work  string // scratch directory, removed on Close
	Seed  int64
	Tier  string // quick | thorough

	mu    sync.Mutex
	once  map[string]*sync.Once
	errs  map[string]error
	paths map[string]string
}

func envOr(k, d string) string {
	if v := os.Getenv(k); v != "" {
		return v
	}
	return d
}

// NewEnv creates the scratch directory.
func NewEnv(tier string) (*Env, error) {
	e := &Env{
		Repo:  envOr("VERIF_REPO", "/repo"),
		Verif: envOr("VERIF_DIR", "/verif"),
		Tier:  tier,
		once:  map[string]*sync.Once{},
		errs:  map[string]error{},
		paths: map[string]string{},
	}
	seed := int64(1)
	if s := os.Getenv("VERIF_SEED"); s != "" {
		if v, err := strconv.ParseInt(s, 10, 64); err == nil {
			seed = v
		}
	}
	e.Seed = seed
	base := envOr("VERIF_SCRATCH", os.TempDir())
	// sweep scratch directories of runs that died before cleaning up (older than 6 hours)
	if old, _ := filepath.Glob(filepath.Join(base, "verifrun-*")); len(old) > 0 {
		for _, d := range old {
			if st, err := os.Stat(d); err == nil && time.Since(st.ModTime()) > 6*time.Hour {
				os.RemoveAll(d)
			}
		}
	}
	w, err := os.MkdirTemp(base, "verifrun-")
	if err != nil {
		return nil, err
	}
	e.Work = w
	return e, nil
}

// Close removes the scratch directory.
func (e *Env) Close() {
	if os.Getenv("VERIF_KEEP") != "" {
		fmt.Fprintln(os.Stderr, "keeping scratch dir", e.Work)
		return
	}
	os.RemoveAll(e.Work)
}

func (e *Env) do(key string, f func() (string, error)) (string, error) {
	e.mu.Lock()
	o, ok := e.once[key]
	if !ok {
		o = &sync.Once{}
		e.once[key] = o
	}
	e.mu.Unlock()
	o.Do(func() {
		p, err := f()
		e.mu.Lock()
		e.paths[key] = p
		e.errs[key] = err
		e.mu.Unlock()
	})
	e.mu.Lock()
	defer e.mu.Unlock()
	return e.paths[key], e.errs[key]
}

// GoEnv is the environment used for every `go` invocation (offline).
func GoEnv() []string {
	env := []string{}
	for _, kv := range os.Environ() {
		if strings.HasPrefix(kv, "GOFLAGS=") || strings.HasPrefix(kv, "GOPROXY=") ||
			strings.HasPrefix(kv, "GOSUMDB=") || strings.HasPrefix(kv, "GOTOOLCHAIN=") {
			continue
		}
		env = append(env, kv)
	}
	return append(env, "GOFLAGS=-mod=mod", "GOPROXY=off")
}

func (e *Env) goBuild(out string, extra ...string) (string, error) {
	dst := filepath.Join(e.Work, "bin", out)
	args := append([]string{"build"}, extra...)
	args = append(args, "-o", dst, ".")
	cmd := exec.Command("go", args...)
	cmd.Dir = e.Repo
	// The cgo package qbe_embeddings #includes /repo/qbe/*.c from outside its directory; the Go
	// build cache does not see edits there. A hash of those sources in CGO_CFLAGS makes the
	// cache key follow them, so the binary is always rebuilt from the current working tree.
	cmd.Env = append(GoEnv(), "CGO_CFLAGS=-O2 -g -DVERIF_QBE_SRC_HASH="+e.qbeHash())
	var buf bytes.Buffer
	cmd.Stdout, cmd.Stderr = &buf, &buf
	if err := cmd.Run(); err != nil {
		return "", fmt.Errorf("go build %v in %s: %v\n%s", extra, e.Repo, err, buf.String())
	}
	return dst, nil
}

func (e *Env) qbeHash() string {
	h := sha256.New()
	filepath.WalkDir(filepath.Join(e.Repo, "qbe"), func(p string, d fs.DirEntry, err error) error {
		if err != nil || d.IsDir() {
			return nil
		}
		if ext := filepath.Ext(p); ext == ".c" || ext == ".h" {
			if b, err := os.ReadFile(p); err == nil {
				h.Write([]byte(p))
				h.Write(b)
			}
		}
		return nil
	})
	return hex.EncodeToString(h.Sum(nil))[:16]
}

// Ferret builds the compiler exactly as a user does.
func (e *Env) Ferret() (string, error) {
	return e.do("ferret", func() (string, error) { return e.goBuild("ferret") })
}

// FerretVerif builds the compiler with the verif hooks enabled.
func (e *Env) FerretVerif() (string, error) {
	return e.do("ferret-verif", func() (string, error) { return e.goBuild("ferret-verif", "-tags", "verif") })
}

// FerretRace builds the compiler with hooks and the race detector.
func (e *Env) FerretRace() (string, error) {
	return e.do("ferret-race", func() (string, error) { return e.goBuild("ferret-race", "-race", "-tags", "verif") })
}

// Libs builds libferret_runtime.a and copies ferret_libs/**.fer exactly like tools/main.go.
func (e *Env) Libs() (string, error) {
	return e.do("libs", func() (string, error) {
		libs := filepath.Join(e.Work, "libs")
		obj := filepath.Join(e.Work, "rtobj")
		if err := os.MkdirAll(libs, 0o755); err != nil {
			return "", err
		}
		if err := os.MkdirAll(obj, 0o755); err != nil {
			return "", err
		}
		core := filepath.Join(e.Repo, "runtime", "core")
		rl := filepath.Join(e.Repo, "runtime", "libs")
		var srcs []string
		for _, d := range []string{core, rl} {
			m, _ := filepath.Glob(filepath.Join(d, "*.c"))
			srcs = append(srcs, m...)
		}
		if len(srcs) == 0 {
			return "", fmt.Errorf("no runtime C sources under %s", e.Repo)
		}
		var objs []string
		var mu sync.Mutex
		var firstErr error
		ParDo(len(srcs), 0, func(i int) {
			o := filepath.Join(obj, strings.TrimSuffix(filepath.Base(srcs[i]), ".c")+".o")
			out, err := exec.Command("gcc", "-std=c99", "-O2", "-w", "-fno-pie", "-I", core, "-I", rl, "-c", srcs[i], "-o", o).CombinedOutput()
			mu.Lock()
			defer mu.Unlock()
			if err != nil && firstErr == nil {
				firstErr = fmt.Errorf("gcc %s: %v\n%s", srcs[i], err, out)
			}
			objs = append(objs, o)
		})
		if firstErr != nil {
			return "", firstErr
		}
		sort.Strings(objs)
		args := append([]string{"rcs", filepath.Join(libs, "libferret_runtime.a")}, objs...)
		if out, err := exec.Command("ar", args...).CombinedOutput(); err != nil {
			return "", fmt.Errorf("ar: %v\n%s", err, out)
		}
		src := filepath.Join(e.Repo, "ferret_libs")
		err := filepath.WalkDir(src, func(p string, d fs.DirEntry, err error) error {
			if err != nil {
				return err
			}
			rel, _ := filepath.Rel(src, p)
			if rel == "." {
				return nil
			}
			dst := filepath.Join(libs, rel)
			if d.IsDir() {
				return os.MkdirAll(dst, 0o755)
			}
			if filepath.Ext(p) != ".fer" {
				return nil
			}
			return CopyFile(p, dst)
		})
		return libs, err
	})
}

// RuntimeMJS copies the shipped runtime.js next to the node runner and returns the runner path.
func (e *Env) RuntimeMJS() (string, error) {
	return e.do("mjs", func() (string, error) {
		d := filepath.Join(e.Work, "js")
		if err := os.MkdirAll(d, 0o755); err != nil {
			return "", err
		}
		if err := CopyFile(filepath.Join(e.Repo, "runtime", "wasm", "runtime.js"), filepath.Join(d, "runtime.mjs")); err != nil {
			return "", err
		}
		if err := CopyFile(filepath.Join(e.Verif, "js", "runwasm.mjs"), filepath.Join(d, "runwasm.mjs")); err != nil {
			return "", err
		}
		return filepath.Join(d, "runwasm.mjs"), nil
	})
}

// CDriver compiles /verif/cdriver/<name>.c together with the given runtime sources
// (relative to /repo/runtime) using clang ASan+UBSan (san=true) or plain gcc -O1 -g (for valgrind).
func (e *Env) CDriver(name string, san bool, rtSrcs ...string) (string, error) {
	key := fmt.Sprintf("cdriver:%s:%v", name, san)
	return e.do(key, func() (string, error) {
		out := filepath.Join(e.Work, "bin", name)
		if san {
			out += "-san"
		}
		os.MkdirAll(filepath.Dir(out), 0o755)
		core := filepath.Join(e.Repo, "runtime", "core")
		rl := filepath.Join(e.Repo, "runtime", "libs")
		var args []string
		cc := "gcc"
		if san {
			cc = "clang"
			args = []string{"-fsanitize=address,undefined", "-fno-sanitize-recover=all", "-fno-omit-frame-pointer", "-O1", "-g"}
		} else {
			args = []string{"-O1", "-g"}
		}
		args = append(args, "-std=gnu99", "-w", "-I", core, "-I", rl, "-o", out, filepath.Join(e.Verif, "cdriver", name+".c"))
		for _, s := range rtSrcs {
			args = append(args, filepath.Join(e.Repo, "runtime", s))
		}
		args = append(args, "-lm")
		if b, err := exec.Command(cc, args...).CombinedOutput(); err != nil {
			return "", fmt.Errorf("%s %v: %v\n%s", cc, args, err, b)
		}
		return out, nil
	})
}

// CopyFile copies src to dst creating parent directories.
func CopyFile(src, dst string) error {
	if err := os.MkdirAll(filepath.Dir(dst), 0o755); err != nil {
		return err
	}
	in, err := os.Open(src)
	if err != nil {
		return err
	}
	defer in.Close()
	out, err := os.Create(dst)
	if err != nil {
		return err
	}
	if _, err := io.Copy(out, in); err != nil {
		out.Close()
		return err
	}
	return out.Close()
}

// ParDo runs f(0..n-1) on `workers` goroutines (0 = NumCPU).
func ParDo(n, workers int, f func(i int)) {
	if workers <= 0 {
		workers = runtime.NumCPU()
	}
	if w := os.Getenv("VERIF_WORKERS"); w != "" {
		if v, err := strconv.Atoi(w); err == nil && v > 0 {
			workers = v
		}
	}
	if workers > n {
		workers = n
	}
	if workers <= 1 {
		for i := 0; i < n; i++ {
			f(i)
		}
		return
	}
	var wg sync.WaitGroup
	ch := make(chan int)
	for w := 0; w < workers; w++ {
		wg.Add(1)
		go func() {
			defer wg.Done()
			for i := range ch {
				f(i)
			}
		}()
	}
	for i := 0; i < n; i++ {
		ch <- i
	}
	close(ch)
	wg.Wait()
}

// CaseDir returns a fresh directory for one case inside the scratch area.
func (e *Env) CaseDir(parts ...string) string {
	p := filepath.Join(append([]string{e.Work, "cases"}, parts...)...)
	os.MkdirAll(p, 0o755)
	return p
}
