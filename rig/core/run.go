package core

import (
	"bytes"
	"context"
	"fmt"
	"os"
	"os/exec"
	"path/filepath"
	"regexp"
	"strconv"
	"strings"
	"syscall"
	"time"
)

// ProcResult is what one child process did.
type ProcResult struct {
	Exit     int    // exit status, -1 when killed by a signal
	Signal   int    // signal number when killed by one
	Stdout   string // captured through a FILE (fully buffered in the child: the hostile case)
	Stderr   string
	CPUOut   bool // SIGXCPU / SIGKILL by RLIMIT_CPU: CPU budget exceeded
	WallOut  bool // wall watchdog fired: inconclusive, never a verdict
	StartErr error
}

// RunOpts controls one child.
type RunOpts struct {
	Dir     string
	Env     []string // appended to os.Environ()
	Stdin   string
	CPUSecs int           // RLIMIT_CPU; 0 = 20
	Wall    time.Duration // 0 = 120 s
	MaxOut  int           // truncate captured streams (0 = 4 MiB)
}

// RunProc runs argv under `ulimit -t` with stdout/stderr redirected to files.
func RunProc(opts RunOpts, argv ...string) ProcResult {
	cpu := opts.CPUSecs
	if cpu <= 0 {
		cpu = 20
	}
	wall := opts.Wall
	if wall <= 0 {
		wall = 120 * time.Second
	}
	maxOut := opts.MaxOut
	if maxOut <= 0 {
		maxOut = 4 << 20
	}
	tmp, err := os.MkdirTemp(opts.Dir, ".io-")
	if err != nil {
		tmp, err = os.MkdirTemp("", "verifio-")
		if err != nil {
			return ProcResult{StartErr: err}
		}
	}
	defer os.RemoveAll(tmp)
	so, _ := os.Create(filepath.Join(tmp, "stdout"))
	se, _ := os.Create(filepath.Join(tmp, "stderr"))
	defer so.Close()
	defer se.Close()

	ctx, cancel := context.WithTimeout(context.Background(), wall)
	defer cancel()
	// sh -c 'ulimit -t N; exec "$@"' sh argv...
	shArgs := append([]string{"-c", fmt.Sprintf("ulimit -t %d; ulimit -c 0; exec \"$@\"", cpu), "sh"}, argv...)
	cmd := exec.CommandContext(ctx, "/bin/sh", shArgs...)
	cmd.Dir = opts.Dir
	cmd.Env = append(os.Environ(), opts.Env...)
	cmd.Stdout = so
	cmd.Stderr = se
	if opts.Stdin != "" {
		cmd.Stdin = strings.NewReader(opts.Stdin)
	}
	cmd.SysProcAttr = &syscall.SysProcAttr{Setpgid: true}
	cmd.Cancel = func() error { return syscall.Kill(-cmd.Process.Pid, syscall.SIGKILL) }
	err = cmd.Run()
	res := ProcResult{}
	if ctx.Err() == context.DeadlineExceeded {
		res.WallOut = true
	}
	if err != nil {
		if ee, ok := err.(*exec.ExitError); ok {
			ws := ee.Sys().(syscall.WaitStatus)
			if ws.Signaled() {
				res.Exit = -1
				res.Signal = int(ws.Signal())
				if (ws.Signal() == syscall.SIGXCPU || ws.Signal() == syscall.SIGKILL) && !res.WallOut {
					res.CPUOut = true
				}
			} else {
				res.Exit = ws.ExitStatus()
			}
		} else {
			res.StartErr = err
			res.Exit = -2
		}
	}
	res.Stdout = readCapped(filepath.Join(tmp, "stdout"), maxOut)
	res.Stderr = readCapped(filepath.Join(tmp, "stderr"), maxOut)
	return res
}

func readCapped(p string, max int) string {
	b, err := os.ReadFile(p)
	if err != nil {
		return ""
	}
	if len(b) > max {
		b = b[:max]
	}
	return string(b)
}

var ansiRE = regexp.MustCompile("\x1b\\[[0-9;]*[A-Za-z]")

// StripANSI removes colour escapes.
func StripANSI(s string) string { return ansiRE.ReplaceAllString(s, "") }

// Diag is one diagnostic printed by the compiler.
type Diag struct {
	Severity string `json:"severity"`
	Code     string `json:"code,omitempty"`
	Message  string `json:"message"`
	File     string `json:"file,omitempty"`
	Line     int    `json:"line,omitempty"`
	Col      int    `json:"col,omitempty"`
}

var diagHead = regexp.MustCompile(`^(error|warning|info|hint|note)(?:\[([A-Z]\d+)\])?: (.*)$`)
var diagLoc = regexp.MustCompile(`^\s*--> (.*):(\d+):(\d+)\s*$`)

// ParseDiags extracts diagnostics from the compiler's stderr.
func ParseDiags(stderr string) []Diag {
	var out []Diag
	lines := strings.Split(StripANSI(stderr), "\n")
	for i := 0; i < len(lines); i++ {
		m := diagHead.FindStringSubmatch(strings.TrimRight(lines[i], "\r "))
		if m == nil {
			continue
		}
		d := Diag{Severity: m[1], Code: m[2], Message: strings.TrimSpace(m[3])}
		// location is on one of the next lines (message may span lines)
		for j := i + 1; j < len(lines) && j <= i+6; j++ {
			if diagHead.MatchString(lines[j]) {
				break
			}
			if lm := diagLoc.FindStringSubmatch(lines[j]); lm != nil {
				d.File = lm[1]
				d.Line, _ = strconv.Atoi(lm[2])
				d.Col, _ = strconv.Atoi(lm[3])
				break
			}
		}
		out = append(out, d)
	}
	return out
}

// Errors returns only error-severity diagnostics.
func Errors(ds []Diag) []Diag {
	var out []Diag
	for _, d := range ds {
		if d.Severity == "error" {
			out = append(out, d)
		}
	}
	return out
}

// CompileResult is the outcome record of one compiler run.
type CompileResult struct {
	Proc     ProcResult
	Diags    []Diag
	Artifact string // expected artifact path ("" for -t)
	Exists   bool   // artifact exists after the run
	Crash    string // "" or a normalised crash site (Go panic / fatal error / signal)
}

// Accepted = exit 0, no error diagnostic, artifact present (when one is expected).
func (c *CompileResult) Accepted() bool {
	if c.Proc.Exit != 0 || len(Errors(c.Diags)) > 0 || c.Crash != "" {
		return false
	}
	return c.Artifact == "" || c.Exists
}

// CleanReject = exit 1 with at least one error diagnostic and no artifact, no crash.
func (c *CompileResult) CleanReject() bool {
	return c.Proc.Exit == 1 && len(Errors(c.Diags)) > 0 && c.Crash == "" && !c.Exists
}

// FirstError returns "CODE message" of the first error diagnostic.
func (c *CompileResult) FirstError() string {
	es := Errors(c.Diags)
	if len(es) == 0 {
		return ""
	}
	return strings.TrimSpace(es[0].Code + " " + es[0].Message)
}

var panicSite = regexp.MustCompile(`(?m)^((?:compiler/|main\.)\S*?)\([^()]*\)$`)
var assertLine = regexp.MustCompile(`(?m)^.*Assertion .* failed\.?$`)
var panicMsg = regexp.MustCompile(`(?m)^(panic: .*|fatal error: .*)$`)

// CrashSite normalises a Go crash to "function @ message".
func CrashSite(p ProcResult) string {
	st := StripANSI(p.Stderr + "\n" + p.Stdout)
	m := panicMsg.FindString(st)
	if a := assertLine.FindString(st); a != "" && m == "" {
		// C-level abort inside the embedded QBE (assert / SIGABRT during cgo execution)
		return "qbe @ " + Short(strings.TrimSpace(a), 160)
	}
	if m == "" {
		if p.Signal != 0 && !p.CPUOut && !p.WallOut {
			return fmt.Sprintf("signal %d", p.Signal)
		}
		if p.Exit == 2 && strings.Contains(st, "goroutine ") {
			m = "exit 2 with goroutine dump"
		} else {
			return ""
		}
	}
	// first frame inside the compiler module after the panic line
	idx := strings.Index(st, m)
	if idx < 0 {
		idx = 0
	}
	rest := st[idx:]
	site := ""
	for _, sm := range panicSite.FindAllStringSubmatch(rest, -1) {
		f := sm[1]
		if strings.Contains(f, "runtime.") || strings.HasSuffix(f, ".func1") && strings.Contains(f, "recover") {
			continue
		}
		site = f
		break
	}
	// normalise addresses in the message
	m = regexp.MustCompile(`0x[0-9a-f]+`).ReplaceAllString(m, "0x?")
	if len(m) > 160 {
		m = m[:160]
	}
	return site + " @ " + m
}

// Target selects a back end.
type Target string

const (
	Native    Target = "native"
	Wasm      Target = "wasm"
	TypeCheck Target = "typecheck"
)

// CompileOpts tunes Compile.
type CompileOpts struct {
	Binary   string // path of the ferret binary to use
	Libs     string
	Target   Target
	KeepGen  bool
	Env      []string
	CPUSecs  int
	OutName  string // artifact file name inside the entry dir (default "out" / "out.wasm")
	ExtraArg []string
}

// Compile runs the compiler on entry (absolute path of the entry .fer file).
func Compile(o CompileOpts, entry string) CompileResult {
	dir := filepath.Dir(entry)
	var args []string
	art := ""
	switch o.Target {
	case TypeCheck:
		args = append(args, "-t")
	case Wasm:
		n := o.OutName
		if n == "" {
			n = "out.wasm"
		}
		art = filepath.Join(dir, n)
		args = append(args, "-target", "wasm", "-o", art)
	default:
		n := o.OutName
		if n == "" {
			n = "out"
		}
		art = filepath.Join(dir, n)
		args = append(args, "-o", art)
	}
	if o.KeepGen {
		args = append(args, "-keep-gen")
	}
	args = append(args, o.ExtraArg...)
	args = append(args, entry)
	if art != "" {
		os.Remove(art)
	}
	env := append([]string{"FERRET_LIBS_PATH=" + o.Libs}, o.Env...)
	p := RunProc(RunOpts{Dir: dir, Env: env, CPUSecs: o.CPUSecs}, append([]string{o.Binary}, args...)...)
	r := CompileResult{Proc: p, Artifact: art}
	r.Diags = ParseDiags(p.Stderr + "\n" + p.Stdout)
	if art != "" {
		if st, err := os.Stat(art); err == nil && !st.IsDir() {
			r.Exists = true
		}
	}
	r.Crash = CrashSite(p)
	return r
}

// RunKind classifies how a produced program terminated.
type RunKind string

const (
	RunExit0   RunKind = "exit0"
	RunPanic   RunKind = "panic"
	RunTrap    RunKind = "trap"
	RunSignal  RunKind = "signal"
	RunExitN   RunKind = "exit"
	RunTimeout RunKind = "timeout"
	RunError   RunKind = "harness-error"
)

// RunResult is the outcome record of one produced program.
type RunResult struct {
	Kind     RunKind
	PanicMsg string
	Lines    []string
	Proc     ProcResult
}

func splitLines(s string) []string {
	s = strings.ReplaceAll(s, "\r\n", "\n")
	s = strings.TrimSuffix(s, "\n")
	if s == "" {
		return nil
	}
	return strings.Split(s, "\n")
}

var nativePanic = regexp.MustCompile(`(?m)^panic: (.*)$`)

// RunNative runs a produced executable (stdout is a file, i.e. fully buffered).
func RunNative(exe string, cpu int, prefix ...string) RunResult {
	argv := append(append([]string{}, prefix...), exe)
	p := RunProc(RunOpts{Dir: filepath.Dir(exe), CPUSecs: cpu, Wall: 60 * time.Second}, argv...)
	r := RunResult{Proc: p, Lines: splitLines(p.Stdout)}
	switch {
	case p.StartErr != nil:
		r.Kind = RunError
	case p.WallOut || p.CPUOut:
		r.Kind = RunTimeout
	case p.Exit == 0:
		r.Kind = RunExit0
	default:
		if m := nativePanic.FindStringSubmatch(p.Stderr); m != nil {
			r.Kind = RunPanic
			r.PanicMsg = strings.TrimSpace(m[1])
		} else if p.Signal != 0 {
			r.Kind = RunSignal
		} else {
			r.Kind = RunExitN
		}
	}
	return r
}

// RunWasm runs a .wasm module under node with the shipped runtime.js.
// The runner prints program output on stdout and, on a throw, one line
// "@@THROW <kind> <message>" on stderr, exit status 3 (Error = panic) or 4 (RuntimeError = trap).
func RunWasm(runner, wasm string, cpu int) RunResult {
	p := RunProc(RunOpts{Dir: filepath.Dir(wasm), CPUSecs: cpu, Wall: 60 * time.Second}, "node", runner, wasm)
	r := RunResult{Proc: p, Lines: splitLines(p.Stdout)}
	switch {
	case p.StartErr != nil:
		r.Kind = RunError
	case p.WallOut || p.CPUOut:
		r.Kind = RunTimeout
	case p.Exit == 0:
		r.Kind = RunExit0
	case p.Exit == 3:
		r.Kind = RunPanic
		r.PanicMsg = throwMsg(p.Stderr)
	case p.Exit == 4:
		r.Kind = RunTrap
		r.PanicMsg = throwMsg(p.Stderr)
	case p.Exit == 5:
		r.Kind = RunError // instantiate/link failure: module not runnable
		r.PanicMsg = throwMsg(p.Stderr)
	case p.Signal != 0:
		r.Kind = RunSignal
	default:
		r.Kind = RunExitN
	}
	return r
}

func throwMsg(stderr string) string {
	for _, l := range strings.Split(stderr, "\n") {
		if strings.HasPrefix(l, "@@THROW ") {
			return strings.TrimSpace(strings.TrimPrefix(l, "@@THROW "))
		}
	}
	return ""
}

// Short cuts a string for evidence samples.
func Short(s string, n int) string {
	if len(s) <= n {
		return s
	}
	return s[:n] + "…"
}

// WriteFile writes a file creating parent directories.
func WriteFile(p string, data string) error {
	if err := os.MkdirAll(filepath.Dir(p), 0o755); err != nil {
		return err
	}
	return os.WriteFile(p, []byte(data), 0o644)
}

// JoinLines is a helper for comparing outputs.
func JoinLines(l []string) string { return strings.Join(l, "\n") }

var _ = bytes.MinRead
