package core

import (
	"bufio"
	"encoding/json"
	"fmt"
	"io"
	"os"
	"os/exec"
	"path/filepath"
	"runtime"
	"strconv"
	"strings"
	"sync"
	"syscall"
	"time"

	"compiler/verifhook"
)

// In-process compile pool.
//
// Process start-up is the dominant cost of a compile in this sandbox (≈40 ms, and it does not
// scale across cores), so verdict monitors that only need accept/reject + diagnostics send
// their cases to long-lived worker processes. A worker is this same binary re-executed as
// `vcheck __worker`; it links the real compiler through compiler/verifhook (built from /repo's
// working tree by ./vcheck) and calls the same compiler.Compile entry point as main.go.
// The parent logs each job before sending it, so a worker death is attributed to one input.
// Every candidate violation found in-process is re-confirmed through the real CLI binary.

// Job is one compilation.
type Job struct {
	ID      string `json:"id"`
	Entry   string `json:"entry"`
	Target  string `json:"target"` // typecheck | native | wasm
	Out     string `json:"out,omitempty"`
	KeepGen bool   `json:"keep_gen,omitempty"`
}

// JobResult is what the worker observed.
type JobResult struct {
	ID      string `json:"id"`
	Success bool   `json:"success"`
	Output  string `json:"output"` // what the compiler printed (stdout+stderr)
	Panic   string `json:"panic,omitempty"`
	Stack   string `json:"stack,omitempty"`
	Died    bool   `json:"died,omitempty"`    // worker process died during the job
	CPUOut  bool   `json:"cpu_out,omitempty"` // CPU budget exceeded
	WallOut bool   `json:"wall_out,omitempty"`
	DiedMsg string `json:"died_msg,omitempty"`
}

// ToCompileResult converts to the CLI-shaped outcome record.
func (j *JobResult) ToCompileResult(artifact string) CompileResult {
	r := CompileResult{Artifact: artifact}
	r.Proc.Stderr = j.Output
	if j.Success {
		r.Proc.Exit = 0
	} else {
		r.Proc.Exit = 1
	}
	r.Diags = ParseDiags(j.Output)
	if artifact != "" {
		if st, err := os.Stat(artifact); err == nil && !st.IsDir() {
			r.Exists = true
		}
	}
	switch {
	case j.Panic != "":
		r.Crash = panicSiteFromStack(j.Stack) + " @ panic: " + Short(j.Panic, 160)
		r.Proc.Exit = 2
	case j.Died:
		r.Crash = CrashSite(ProcResult{Stderr: j.DiedMsg, Exit: 2})
		if r.Crash == "" {
			r.Crash = "worker died: " + Short(j.DiedMsg, 200)
		}
		r.Proc.Exit = 2
	case j.CPUOut:
		r.Proc.CPUOut = true
		r.Proc.Exit = -1
	case j.WallOut:
		r.Proc.WallOut = true
		r.Proc.Exit = -1
	}
	return r
}

func panicSiteFromStack(stack string) string {
	// first compiler/ frame after the panic frames
	lines := strings.Split(stack, "\n")
	seenPanic := false
	for _, l := range lines {
		if strings.HasPrefix(l, "panic(") {
			seenPanic = true
			continue
		}
		if !seenPanic {
			continue
		}
		if strings.HasPrefix(l, "compiler/") && !strings.HasPrefix(l, "compiler/verifhook") {
			if i := strings.LastIndex(l, "("); i > 0 {
				return l[:i]
			}
			return l
		}
	}
	return "?"
}

// WorkerMain is the body of `vcheck __worker`.
func WorkerMain() {
	realOut := os.NewFile(uintptr(mustDup(1)), "realstdout")
	in := bufio.NewReaderSize(os.Stdin, 1<<20)
	tmp, _ := os.MkdirTemp("", "verifworker-")
	defer os.RemoveAll(tmp)
	capPath := filepath.Join(tmp, "capture")
	enc := json.NewEncoder(realOut)
	for {
		line, err := in.ReadBytes('\n')
		if len(line) > 0 {
			var job Job
			if json.Unmarshal(line, &job) == nil {
				res := runJob(job, capPath)
				enc.Encode(res)
			}
		}
		if err != nil {
			return
		}
	}
}

func mustDup(fd int) int {
	n, err := syscall.Dup(fd)
	if err != nil {
		panic(err)
	}
	return n
}

func runJob(job Job, capPath string) (res JobResult) {
	res.ID = job.ID
	f, err := os.Create(capPath)
	if err != nil {
		res.Panic = "harness: " + err.Error()
		return
	}
	oldOut, oldErr := os.Stdout, os.Stderr
	os.Stdout, os.Stderr = f, f
	func() {
		defer func() {
			if r := recover(); r != nil {
				res.Panic = fmt.Sprint(r)
				buf := make([]byte, 64<<10)
				n := runtime.Stack(buf, false)
				res.Stack = string(buf[:n])
			}
		}()
		if job.Out != "" {
			os.Remove(job.Out)
		}
		res.Success = verifhook.Compile(verifhook.CompileOptions{
			EntryFile:     job.Entry,
			Output:        job.Out,
			Target:        map[string]string{"wasm": "wasm"}[job.Target],
			TypecheckOnly: job.Target == "typecheck" || job.Target == "",
			KeepGen:       job.KeepGen,
		})
	}()
	os.Stdout, os.Stderr = oldOut, oldErr
	f.Close()
	b, _ := os.ReadFile(capPath)
	if len(b) > 1<<20 {
		b = b[:1<<20]
	}
	res.Output = string(b)
	return
}

type poolWorker struct {
	cmd    *exec.Cmd
	stdin  io.WriteCloser
	out    *bufio.Reader
	errLog string
}

// Pool runs jobs on in-process workers.
type Pool struct {
	Libs    string
	Workers int
	CPUSecs int
	LogDir  string // job log + worker stderr files
	// WorkerEnv returns extra environment for worker number idx (e.g. a VERIF_SCHED seed)
	WorkerEnv func(idx int) []string
}

func (p *Pool) spawn(idx int) (*poolWorker, error) {
	self, err := os.Executable()
	if err != nil {
		return nil, err
	}
	w := &poolWorker{errLog: filepath.Join(p.LogDir, fmt.Sprintf("worker%d.stderr", idx))}
	ef, err := os.Create(w.errLog)
	if err != nil {
		return nil, err
	}
	defer ef.Close()
	cmd := exec.Command(self, "__worker")
	cmd.Env = append(os.Environ(), "FERRET_LIBS_PATH="+p.Libs, "GOMAXPROCS=4")
	if p.WorkerEnv != nil {
		cmd.Env = append(cmd.Env, p.WorkerEnv(idx)...)
	}
	cmd.Stderr = ef
	cmd.SysProcAttr = &syscall.SysProcAttr{Setpgid: true}
	w.stdin, err = cmd.StdinPipe()
	if err != nil {
		return nil, err
	}
	so, err := cmd.StdoutPipe()
	if err != nil {
		return nil, err
	}
	w.out = bufio.NewReaderSize(so, 1<<20)
	if err := cmd.Start(); err != nil {
		return nil, err
	}
	w.cmd = cmd
	return w, nil
}

func (w *poolWorker) kill() {
	if w.cmd != nil && w.cmd.Process != nil {
		syscall.Kill(-w.cmd.Process.Pid, syscall.SIGKILL)
		w.stdin.Close()
		w.cmd.Wait()
	}
}

func procCPUSeconds(pid int) float64 {
	b, err := os.ReadFile(fmt.Sprintf("/proc/%d/stat", pid))
	if err != nil {
		return 0
	}
	s := string(b)
	i := strings.LastIndex(s, ")")
	if i < 0 {
		return 0
	}
	f := strings.Fields(s[i+1:])
	if len(f) < 13 {
		return 0
	}
	ut, _ := strconv.ParseFloat(f[11], 64)
	st, _ := strconv.ParseFloat(f[12], 64)
	return (ut + st) / 100.0
}

// Run executes all jobs and returns results in job order.
func (p *Pool) Run(jobs []Job) []JobResult {
	n := p.Workers
	if n <= 0 {
		n = runtime.NumCPU()
	}
	if v := os.Getenv("VERIF_WORKERS"); v != "" {
		if x, err := strconv.Atoi(v); err == nil && x > 0 {
			n = x
		}
	}
	if n > len(jobs) {
		n = len(jobs)
	}
	cpu := p.CPUSecs
	if cpu <= 0 {
		cpu = 20
	}
	os.MkdirAll(p.LogDir, 0o755)
	results := make([]JobResult, len(jobs))
	ch := make(chan int)
	var wg sync.WaitGroup
	for wi := 0; wi < n; wi++ {
		wg.Add(1)
		go func(wi int) {
			defer wg.Done()
			var w *poolWorker
			defer func() {
				if w != nil {
					w.kill()
				}
			}()
			jl, _ := os.Create(filepath.Join(p.LogDir, fmt.Sprintf("worker%d.jobs", wi)))
			defer jl.Close()
			for ji := range ch {
				job := jobs[ji]
				if w == nil {
					var err error
					w, err = p.spawn(wi)
					if err != nil {
						results[ji] = JobResult{ID: job.ID, Died: true, DiedMsg: "spawn: " + err.Error()}
						w = nil
						continue
					}
				}
				fmt.Fprintf(jl, "%s %s\n", job.ID, job.Entry) // logged before it is sent
				b, _ := json.Marshal(job)
				startCPU := procCPUSeconds(w.cmd.Process.Pid)
				if _, err := w.stdin.Write(append(b, '\n')); err != nil {
					results[ji] = JobResult{ID: job.ID, Died: true, DiedMsg: "write: " + err.Error()}
					w.kill()
					w = nil
					continue
				}
				type rd struct {
					line []byte
					err  error
				}
				rc := make(chan rd, 1)
				go func(r *bufio.Reader) {
					l, err := r.ReadBytes('\n')
					rc <- rd{l, err}
				}(w.out)
				deadline := time.After(120 * time.Second)
				tick := time.NewTicker(250 * time.Millisecond)
				var got *rd
				var res JobResult
			wait:
				for {
					select {
					case x := <-rc:
						got = &x
						break wait
					case <-tick.C:
						if procCPUSeconds(w.cmd.Process.Pid)-startCPU > float64(cpu) {
							res = JobResult{ID: job.ID, CPUOut: true}
							break wait
						}
					case <-deadline:
						res = JobResult{ID: job.ID, WallOut: true}
						break wait
					}
				}
				tick.Stop()
				if got == nil {
					w.kill()
					w = nil
					results[ji] = res
					continue
				}
				if got.err != nil || json.Unmarshal(got.line, &res) != nil {
					w.kill()
					eb, _ := os.ReadFile(w.errLog)
					msg := string(eb)
					if len(msg) > 6000 {
						msg = msg[:6000]
					}
					results[ji] = JobResult{ID: job.ID, Died: true, DiedMsg: msg}
					w = nil
					continue
				}
				results[ji] = res
			}
		}(wi)
	}
	for i := range jobs {
		ch <- i
	}
	close(ch)
	wg.Wait()
	return results
}
