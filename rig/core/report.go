package core

import (
	"crypto/sha256"
	"encoding/hex"
	"encoding/json"
	"fmt"
	"math/rand/v2"
	"os"
	"path/filepath"
	"regexp"
	"sort"
	"strings"
	"sync"
	"time"
)

// Finding is one entry of /verif/known_findings.json.
type Finding struct {
	ID        string   `json:"id"`
	Property  string   `json:"property"`
	Status    string   `json:"status"` // open | fixed
	Case      string   `json:"case"`   // exact case id, or a regexp when CaseRE is true
	CaseRE    bool     `json:"case_re,omitempty"`
	Signature string   `json:"signature"` // regexp over the failure signature
	What      string   `json:"what"`
	Gates     []string `json:"gates,omitempty"`
	FixCommit string   `json:"fix_commit,omitempty"`
}

// KnownFindings is the committed file; never written at run time.
type KnownFindings struct {
	Findings []Finding `json:"findings"`
}

// LoadFindings reads the known-findings file.
func LoadFindings(verif string) (*KnownFindings, error) {
	b, err := os.ReadFile(filepath.Join(verif, "known_findings.json"))
	if err != nil {
		if os.IsNotExist(err) {
			return &KnownFindings{}, nil
		}
		return nil, err
	}
	var k KnownFindings
	if err := json.Unmarshal(b, &k); err != nil {
		return nil, fmt.Errorf("known_findings.json: %v", err)
	}
	return &k, nil
}

// Gated returns the generator features switched off by open findings.
func (k *KnownFindings) Gated() map[string]bool {
	g := map[string]bool{}
	for _, f := range k.Findings {
		if f.Status == "open" {
			for _, x := range f.Gates {
				g[x] = true
			}
		}
	}
	return g
}

// Failure is one observed violation candidate.
type Failure struct {
	Case      string      `json:"case"`      // stable case id ("probe:…", enumerated key, or "gen:<seed>:<i>")
	Signature string      `json:"signature"` // normalised failure kind
	Detail    string      `json:"detail"`
	Replay    interface{} `json:"replay,omitempty"` // full input needed to re-run the case
}

// Report accumulates what one check observed.
type Report struct {
	Property string
	Env      *Env
	Level    string
	start    time.Time

	mu            sync.Mutex
	failures      []Failure
	inconclusive  []string
	evaluations   int
	distinct      map[string]bool
	samples       []interface{}
	firstCase     string
	counters      map[string]int
	extra         map[string]interface{}
	Rule          string
	Assumptions   []string
	Exhaustive    bool
	MaxSamples    int
	knownPrinted  []string
	MinNontrivial int
}

// NewReport starts a report.
func NewReport(prop string, env *Env) *Report {
	return &Report{Property: prop, Env: env, Level: "exploration", start: time.Now(),
		distinct: map[string]bool{}, counters: map[string]int{}, extra: map[string]interface{}{}, MaxSamples: 6, MinNontrivial: 2}
}

// Eval counts one executed case.
func (r *Report) Eval() { r.mu.Lock(); r.evaluations++; r.mu.Unlock() }

// EvalN counts n executed cases.
func (r *Report) EvalN(n int) { r.mu.Lock(); r.evaluations += n; r.mu.Unlock() }

// Nontrivial records that a case (identified by its content) reached the deciding observation.
func (r *Report) Nontrivial(content string) {
	h := sha256.Sum256([]byte(content))
	k := hex.EncodeToString(h[:8])
	r.mu.Lock()
	r.distinct[k] = true
	if r.firstCase == "" && len(content) > 40 {
		r.firstCase = content // kept as a fallback sample: an actual case this run decided
	}
	r.mu.Unlock()
}

// Count bumps a named counter that goes into the evidence.
func (r *Report) Count(name string, n int) { r.mu.Lock(); r.counters[name] += n; r.mu.Unlock() }

// Set stores an extra evidence key.
func (r *Report) Set(name string, v interface{}) { r.mu.Lock(); r.extra[name] = v; r.mu.Unlock() }

// Sample stores an actual case for the evidence (bounded).
func (r *Report) Sample(v interface{}) {
	r.mu.Lock()
	if len(r.samples) < r.MaxSamples {
		r.samples = append(r.samples, v)
	}
	r.mu.Unlock()
}

// Fail records a violation candidate.
func (r *Report) Fail(f Failure) { r.mu.Lock(); r.failures = append(r.failures, f); r.mu.Unlock() }

// Inconclusive records a case that could not be decided.
func (r *Report) Inconclusive(what string) {
	r.mu.Lock()
	if len(r.inconclusive) < 50 {
		r.inconclusive = append(r.inconclusive, what)
	}
	r.counters["inconclusive"]++
	r.mu.Unlock()
}

// Rng returns the deterministic stream for (seed, property, case index).
func (r *Report) Rng(idx int) *rand.Rand {
	return CaseRng(r.Env.Seed, r.Property, idx)
}

// CaseRng derives a PCG stream from seed, a label and an index.
func CaseRng(seed int64, label string, idx int) *rand.Rand {
	h := sha256.Sum256([]byte(fmt.Sprintf("%s/%d", label, idx)))
	var s2 uint64
	for i := 0; i < 8; i++ {
		s2 = s2<<8 | uint64(h[i])
	}
	return rand.New(rand.NewPCG(uint64(seed)*0x9E3779B97F4A7C15+1, s2))
}

// Finish applies the known-findings protocol, prints the verdict lines, writes the
// evidence file and returns the process exit code.
func (r *Report) Finish() int {
	kf, err := LoadFindings(r.Env.Verif)
	if err != nil {
		fmt.Println("HARNESS-ERROR:", err)
		return 2
	}
	type cf struct {
		f  Finding
		re *regexp.Regexp
		cr *regexp.Regexp
	}
	var open []cf
	for _, f := range kf.Findings {
		if f.Property != r.Property || f.Status != "open" {
			continue
		}
		c := cf{f: f}
		c.re, err = regexp.Compile(f.Signature)
		if err != nil {
			fmt.Println("HARNESS-ERROR: bad signature regexp in", f.ID, err)
			return 2
		}
		if f.CaseRE {
			c.cr, err = regexp.Compile("^(?:" + f.Case + ")$")
			if err != nil {
				fmt.Println("HARNESS-ERROR: bad case regexp in", f.ID, err)
				return 2
			}
		}
		open = append(open, c)
	}
	sort.SliceStable(r.failures, func(i, j int) bool { return r.failures[i].Case < r.failures[j].Case })
	violations := 0
	knownHit := map[string]int{}
	replayDir := filepath.Join(r.Env.Verif, "replay", r.Property)
	var vioLines []string
	for _, f := range r.failures {
		matched := ""
		for _, c := range open {
			caseOK := c.f.Case == f.Case
			if c.cr != nil {
				caseOK = c.cr.MatchString(f.Case)
			}
			if caseOK && c.re.MatchString(f.Signature) {
				matched = c.f.ID
				if knownHit[matched] == 0 {
					line := fmt.Sprintf("KNOWN-FINDING: property=%s %s [%s] %s", r.Property, c.f.ID, f.Case, c.f.What)
					fmt.Println(line)
					r.knownPrinted = append(r.knownPrinted, line)
				}
				knownHit[matched]++
				break
			}
		}
		if matched != "" {
			continue
		}
		violations++
		os.MkdirAll(replayDir, 0o755)
		name := sanitize(f.Case) + ".json"
		p := filepath.Join(replayDir, name)
		b, _ := json.MarshalIndent(f, "", " ")
		os.WriteFile(p, b, 0o644)
		if violations <= 25 {
			vioLines = append(vioLines, fmt.Sprintf("VIOLATION property=%s replay=%s", r.Property, p))
			fmt.Printf("  case=%s signature=%s\n  %s\n", f.Case, f.Signature, Short(strings.ReplaceAll(f.Detail, "\n", "\n  "), 1500))
		}
	}
	for _, l := range vioLines {
		fmt.Println(l)
	}
	// evidence
	nd := len(r.distinct)
	cov := map[string]interface{}{
		"evaluations":         r.evaluations,
		"distinct_nontrivial": nd,
		"rule":                r.Rule,
		"samples":             r.samples,
		"exhaustive":          r.Exhaustive,
		"counters":            r.counters,
		"inconclusive_cases":  r.inconclusive,
		"known_findings_seen": r.knownPrinted,
	}
	for k, v := range r.extra {
		cov[k] = v
	}
	if len(r.samples) == 0 && r.firstCase != "" {
		cov["samples"] = []interface{}{map[string]string{"case": Short(r.firstCase, 3000)}}
	} else if r.samples == nil {
		cov["samples"] = []interface{}{}
	}
	ev := map[string]interface{}{
		"property_id": r.Property,
		"tier":        r.Env.Tier,
		"seed":        r.Env.Seed,
		"level":       r.Level,
		"coverage":    cov,
		"assumptions": r.Assumptions,
		"wall_s":      time.Since(r.start).Seconds(),
		"violations":  violations,
	}
	if r.Assumptions == nil {
		ev["assumptions"] = []string{}
	}
	b, _ := json.MarshalIndent(ev, "", " ")
	os.MkdirAll(filepath.Join(r.Env.Verif, "evidence"), 0o755)
	if os.Getenv("VERIF_NO_EVIDENCE") == "" {
		if err := os.WriteFile(filepath.Join(r.Env.Verif, "evidence", r.Property+".json"), append(b, '\n'), 0o644); err != nil {
			fmt.Println("HARNESS-ERROR: cannot write evidence:", err)
			return 2
		}
	}
	fmt.Printf("SUMMARY property=%s tier=%s seed=%d evaluations=%d distinct_nontrivial=%d violations=%d known=%d inconclusive=%d wall=%.1fs\n",
		r.Property, r.Env.Tier, r.Env.Seed, r.evaluations, nd, violations, len(knownHit), r.counters["inconclusive"], time.Since(r.start).Seconds())
	keys := make([]string, 0, len(r.counters))
	for k := range r.counters {
		keys = append(keys, k)
	}
	sort.Strings(keys)
	for _, k := range keys {
		fmt.Printf("  %s=%d\n", k, r.counters[k])
	}
	if violations > 0 {
		return 1
	}
	if nd < r.MinNontrivial || r.evaluations == 0 {
		fmt.Printf("INCONCLUSIVE property=%s: the run observed too little (evaluations=%d distinct_nontrivial=%d)\n", r.Property, r.evaluations, nd)
		return 2
	}
	return 0
}

func sanitize(s string) string {
	var b strings.Builder
	for _, c := range s {
		if c >= 'a' && c <= 'z' || c >= 'A' && c <= 'Z' || c >= '0' && c <= '9' || c == '-' || c == '_' || c == '.' {
			b.WriteRune(c)
		} else {
			b.WriteByte('_')
		}
	}
	out := b.String()
	if len(out) > 100 {
		h := sha256.Sum256([]byte(s))
		out = out[:80] + "_" + hex.EncodeToString(h[:6])
	}
	return out
}
