// vcheck <property> --tier quick|thorough [--replay file]
package main

import (
	"flag"
	"fmt"
	"os"
	"sort"
	"strings"

	"verifrig/core"
	"verifrig/props"
)

func main() {
	if len(os.Args) < 2 {
		usage()
	}
	id := os.Args[1]
	if id == "__reduce" {
		props.ReduceCLI(os.Args[2:])
		return
	}
	if id == "__worker" {
		core.WorkerMain()
		return
	}
	fs := flag.NewFlagSet("vcheck", flag.ExitOnError)
	tier := fs.String("tier", "", "quick|thorough")
	replay := fs.String("replay", "", "replay file")
	fs.Parse(os.Args[2:])
	if *tier == "" {
		*tier = os.Getenv("VERIF_TIER")
	}
	if *tier == "" {
		*tier = "quick"
	}
	if *tier != "quick" && *tier != "thorough" {
		usage()
	}
	if id == "list" {
		ids := props.IDs()
		sort.Strings(ids)
		fmt.Println(strings.Join(ids, "\n"))
		return
	}
	f := props.Lookup(id)
	if f == nil {
		fmt.Fprintln(os.Stderr, "unknown property", id)
		os.Exit(2)
	}
	env, err := core.NewEnv(*tier)
	if err != nil {
		fmt.Println("HARNESS-ERROR:", err)
		os.Exit(2)
	}
	rep := core.NewReport(id, env)
	code := func() (code int) {
		defer env.Close()
		if err := f(&props.Ctx{Env: env, R: rep, Replay: *replay}); err != nil {
			fmt.Println("HARNESS-ERROR:", err)
			return 2
		}
		return rep.Finish()
	}()
	os.Exit(code)
}

func usage() {
	fmt.Fprintln(os.Stderr, "usage: vcheck <property|list> --tier quick|thorough [--replay file]")
	os.Exit(2)
}
