module verifrig

go 1.25.4

require compiler v0.0.0

replace compiler => /repo

require github.com/anishathalye/porcupine v1.3.0
