/* Driver for runtime/core/bigint.c (linked unmodified, compiled with ASan+UBSan).
 * stdin : one command per line  "<type> <op> <A> <B>"
 *         type in i128 u128 i256 u256; A, B big-endian hex of exactly N/4 digits,
 *         except: shl/shr: B is a decimal shift count; from64: A is 16 hex digits (raw 64 bits);
 *         fromstr: A is the text to parse (no blanks); unary ops ignore B ("-").
 * stdout: one line per command  "<value-form result> <ptr-form result or ->"
 */
#include <stdio.h>
#include <stdlib.h>
#include <string.h>
#include <stdint.h>
#include "bigint.h"

static int hexval(int c) {
    if (c >= '0' && c <= '9') return c - '0';
    if (c >= 'a' && c <= 'f') return c - 'a' + 10;
    if (c >= 'A' && c <= 'F') return c - 'A' + 10;
    return -1;
}

/* big-endian hex -> little-endian limbs */
static void parse_hex(const char* s, ferret_limb_t* w, int nl) {
    int nd = nl * FERRET_LIMB_BITS / 4;
    memset(w, 0, sizeof(ferret_limb_t) * nl);
    int len = (int)strlen(s);
    for (int i = 0; i < nd && i < len; i++) {
        int v = hexval(s[len - 1 - i]);
        if (v < 0) v = 0;
        int bit = i * 4;
        w[bit / FERRET_LIMB_BITS] |= (ferret_limb_t)v << (bit % FERRET_LIMB_BITS);
    }
}

static void print_hex(const ferret_limb_t* w, int nl) {
    int nd = nl * FERRET_LIMB_BITS / 4;
    for (int i = nd - 1; i >= 0; i--) {
        int bit = i * 4;
        int v = (int)((w[bit / FERRET_LIMB_BITS] >> (bit % FERRET_LIMB_BITS)) & 0xf);
        putchar("0123456789abcdef"[v]);
    }
}

#define BIN(T, NAME) \
    if (strcmp(op, #NAME) == 0) { \
        ferret_##T r = ferret_##T##_##NAME(a, b); \
        ferret_##T rp; memset(&rp, 0xA5, sizeof rp); \
        ferret_##T##_##NAME##_ptr(&a, &b, &rp); \
        print_hex(r.words, NL); putchar(' '); print_hex(rp.words, NL); putchar('\n'); return; }
#define CMP(T, NAME) \
    if (strcmp(op, #NAME) == 0) { \
        int r = ferret_##T##_##NAME(a, b) ? 1 : 0; \
        int rp = ferret_##T##_##NAME##_ptr(&a, &b) ? 1 : 0; \
        printf("%d %d\n", r, rp); return; }

#define NOTPTR_ferret_i128(a, rp) (void)0; hasp = 0
#define NOTPTR_ferret_u128(a, rp) (void)0; hasp = 0
#define NOTPTR_ferret_i256(a, rp) ferret_i256_not_ptr(a, rp)
#define NOTPTR_ferret_u256(a, rp) ferret_u256_not_ptr(a, rp)

#define DEFTYPE(T, NLIMBS, I64T, FROM64, TO64) \
static void run_##T(const char* op, const char* sa, const char* sb) { \
    enum { NL = NLIMBS }; \
    ferret_##T a, b; \
    if (strcmp(op, "fromstr") == 0) { \
        ferret_##T r = ferret_##T##_from_string(sa); \
        ferret_##T rp; memset(&rp, 0xA5, sizeof rp); \
        ferret_##T##_from_string_ptr(sa, &rp); \
        print_hex(r.words, NL); putchar(' '); print_hex(rp.words, NL); putchar('\n'); return; } \
    if (strcmp(op, "from64") == 0) { \
        uint64_t raw = strtoull(sa, NULL, 16); \
        ferret_##T r = ferret_##T##_##FROM64((I64T)raw); \
        ferret_##T rp; memset(&rp, 0xA5, sizeof rp); \
        ferret_##T##_##FROM64##_ptr((I64T)raw, &rp); \
        print_hex(r.words, NL); putchar(' '); print_hex(rp.words, NL); putchar('\n'); return; } \
    parse_hex(sa, a.words, NL); \
    if (strcmp(op, "shl") == 0 || strcmp(op, "shr") == 0) { \
        int n = atoi(sb); \
        ferret_##T r = (op[2] == 'l') ? ferret_##T##_shl(a, n) : ferret_##T##_shr(a, n); \
        print_hex(r.words, NL); printf(" -\n"); return; } \
    if (strcmp(op, "not") == 0) { \
        ferret_##T r = ferret_##T##_not(a); int hasp = 1; \
        ferret_##T rp; memset(&rp, 0xA5, sizeof rp); \
        NOTPTR_ferret_##T(&a, &rp); \
        print_hex(r.words, NL); putchar(' '); \
        if (hasp) print_hex(rp.words, NL); else putchar('-'); \
        putchar('\n'); return; } \
    if (strcmp(op, "to64") == 0) { \
        uint64_t r = (uint64_t)ferret_##T##_##TO64(a); \
        uint64_t rp = (uint64_t)ferret_##T##_##TO64##_ptr(&a); \
        printf("%016llx %016llx\n", (unsigned long long)r, (unsigned long long)rp); return; } \
    if (strcmp(op, "tostr") == 0) { \
        char* r = ferret_##T##_to_string(a); \
        char* rp = ferret_##T##_to_string_ptr(&a); \
        printf("%s %s\n", r ? r : "(null)", rp ? rp : "(null)"); \
        free(r); free(rp); return; } \
    parse_hex(sb, b.words, NL); \
    BIN(T, add) BIN(T, sub) BIN(T, mul) BIN(T, div) BIN(T, mod) BIN(T, and) BIN(T, or) BIN(T, xor) BIN(T, pow) \
    CMP(T, eq) CMP(T, lt) CMP(T, gt) \
    printf("?unknown-op\n"); \
}

DEFTYPE(i128, FERRET_U128_LIMBS, int64_t, from_i64, to_i64)
DEFTYPE(u128, FERRET_U128_LIMBS, uint64_t, from_u64, to_u64)
DEFTYPE(i256, FERRET_U256_LIMBS, int64_t, from_i64, to_i64)
DEFTYPE(u256, FERRET_U256_LIMBS, uint64_t, from_u64, to_u64)

int main(void) {
    static char line[4096];
    static char ty[16], op[16], sa[2048], sb[2048];
    static char outbuf[1 << 16];
    setvbuf(stdout, outbuf, _IOFBF, sizeof outbuf);
    while (fgets(line, sizeof line, stdin)) {
        sb[0] = '-'; sb[1] = 0;
        int n = sscanf(line, "%15s %15s %2047s %2047s", ty, op, sa, sb);
        if (n < 3) { printf("?parse\n"); continue; }
        if (strcmp(ty, "i128") == 0) run_i128(op, sa, sb);
        else if (strcmp(ty, "u128") == 0) run_u128(op, sa, sb);
        else if (strcmp(ty, "i256") == 0) run_i256(op, sa, sb);
        else if (strcmp(ty, "u256") == 0) run_u256(op, sa, sb);
        else printf("?type\n");
    }
    fflush(stdout);
    return 0;
}
