/* Driver for runtime/core/{map,array,optional}.c and runtime/libs/{len,append}.c
 * (linked unmodified; compiled with ASan+UBSan, or plain for valgrind).
 * One command per line on stdin, one result line per command on stdout.
 * All buffers handed to the runtime are exact-size heap blocks so that any
 * over-read / over-write is visible to the sanitizer.
 */
#include <stdio.h>
#include <stdlib.h>
#include <string.h>
#include <stdint.h>
#include <stdbool.h>
#include "map.h"
#include "array.h"

void ferret_optional_unwrap_or(const void* opt, const void* default_val, void* out, uint64_t val_size);
int32_t ferret_len_array(void* arr);
int32_t ferret_len_map(void* map);
bool ferret_append_array(void* arr, const void* elem);

#define MAXH 64
static ferret_map_t* maps[MAXH];
static int mkind[MAXH]; /* 0 i32, 1 i64, 2 str, 3 bytes */
static ferret_array_t* arrs[MAXH];

/* interned strings kept alive while any map may reference them */
static char** interned; static size_t n_interned, cap_interned;
static char* intern(const char* s) {
    if (n_interned == cap_interned) { cap_interned = cap_interned ? cap_interned * 2 : 64; interned = realloc(interned, cap_interned * sizeof(char*)); }
    char* c = malloc(strlen(s) + 1); strcpy(c, s); interned[n_interned++] = c; return c;
}

static int hexval(int c) { if (c >= '0' && c <= '9') return c - '0'; if (c >= 'a' && c <= 'f') return c - 'a' + 10; return 0; }
/* returns exact-size malloc'd buffer (size may be 0 -> malloc(1) not exposed) */
static uint8_t* unhex(const char* s, size_t* n) {
    if (strcmp(s, "-") == 0) { *n = 0; return malloc(0); }
    size_t len = strlen(s) / 2; uint8_t* b = malloc(len);
    for (size_t i = 0; i < len; i++) b[i] = (uint8_t)(hexval(s[2*i]) << 4 | hexval(s[2*i+1]));
    *n = len; return b;
}
static void puthex(const uint8_t* b, size_t n) { if (n == 0) { putchar('-'); return; } for (size_t i = 0; i < n; i++) printf("%02x", b[i]); }

static int kind_of(const char* k) { if (!strcmp(k, "i32")) return 0; if (!strcmp(k, "i64")) return 1; if (!strcmp(k, "str")) return 2; return 3; }

/* builds the key buffer the runtime expects; for str maps the key is a char* slot.
 * fresh=1: the string is a new copy (lookups must compare by content). */
static void* mk_key(int kind, const char* hex, int keep, char** tofree) {
    size_t n; uint8_t* raw = unhex(hex, &n);
    *tofree = NULL;
    if (kind != 2) return raw;
    char* s = malloc(n + 1); memcpy(s, raw, n); s[n] = 0; free(raw);
    char* str = s;
    if (keep) { str = intern(s); free(s); } else { *tofree = s; }
    char** slot = malloc(sizeof(char*)); *slot = str; return slot;
}

static void print_key(int kind, const void* key, size_t ks) {
    if (kind == 2) { const char* s = *(const char* const*)key; puthex((const uint8_t*)s, strlen(s)); }
    else puthex(key, ks);
}

int main(void) {
    static char line[1 << 20];
    static char outbuf[1 << 16];
    setvbuf(stdout, outbuf, _IOFBF, sizeof outbuf);
    while (fgets(line, sizeof line, stdin)) {
        char* save = NULL;
        char* cmd = strtok_r(line, " \n", &save);
        if (!cmd) { printf("?empty\n"); continue; }
#define TOK() strtok_r(NULL, " \n", &save)
        if (!strcmp(cmd, "mnew")) {
            int h = atoi(TOK()); int kind = kind_of(TOK()); size_t ks = strtoul(TOK(), 0, 10), vs = strtoul(TOK(), 0, 10);
            ferret_map_t* m = kind == 0 ? ferret_map_new_i32(ks, vs) : kind == 1 ? ferret_map_new_i64(ks, vs) : kind == 2 ? ferret_map_new_str(ks, vs) : ferret_map_new_bytes(ks, vs);
            maps[h] = m; mkind[h] = kind; printf("%s\n", m ? "ok" : "null");
        } else if (!strcmp(cmd, "mpairs")) {
            int h = atoi(TOK()); int kind = kind_of(TOK()); size_t ks = strtoul(TOK(), 0, 10), vs = strtoul(TOK(), 0, 10); size_t cnt = strtoul(TOK(), 0, 10);
            uint8_t* keys = malloc(ks * cnt); uint8_t* vals = malloc(vs * cnt);
            for (size_t i = 0; i < cnt; i++) {
                char* tf; void* k = mk_key(kind, TOK(), 1, &tf); memcpy(keys + i * ks, k, ks); free(k);
                size_t vn; uint8_t* v = unhex(TOK(), &vn); memcpy(vals + i * vs, v, vs); free(v);
            }
            ferret_map_t* m = kind == 0 ? ferret_map_from_pairs_i32(ks, vs, keys, vals, cnt) : kind == 1 ? ferret_map_from_pairs_i64(ks, vs, keys, vals, cnt) : kind == 2 ? ferret_map_from_pairs_str(ks, vs, keys, vals, cnt) : ferret_map_from_pairs_bytes(ks, vs, keys, vals, cnt);
            free(keys); free(vals); /* the runtime must have copied them */
            maps[h] = m; mkind[h] = kind; printf("%s\n", m ? "ok" : "null");
        } else if (!strcmp(cmd, "mset")) {
            int h = atoi(TOK()); char* tf; void* k = mk_key(mkind[h], TOK(), 1, &tf); size_t vn; uint8_t* v = unhex(TOK(), &vn);
            bool ok = ferret_map_set(maps[h], k, v); free(k); free(v); printf("%d\n", ok ? 1 : 0);
        } else if (!strcmp(cmd, "mget")) {
            int h = atoi(TOK()); char* tf; void* k = mk_key(mkind[h], TOK(), 0, &tf);
            void* v = ferret_map_get(maps[h], k);
            if (v) { puthex(v, maps[h]->value_size); putchar('\n'); } else printf("nil\n");
            free(k); free(tf);
        } else if (!strcmp(cmd, "mhas")) {
            int h = atoi(TOK()); char* tf; void* k = mk_key(mkind[h], TOK(), 0, &tf);
            printf("%d\n", ferret_map_has(maps[h], k) ? 1 : 0); free(k); free(tf);
        } else if (!strcmp(cmd, "mopt")) { /* Ferret optional layout: value bytes + 1 flag byte */
            int h = atoi(TOK()); char* tf; void* k = mk_key(mkind[h], TOK(), 0, &tf);
            size_t vs = maps[h]->value_size; uint8_t* out = malloc(vs + 1); memset(out, 0x5A, vs + 1);
            ferret_map_get_optional_out(maps[h], k, out);
            if (out[vs] == 1) { printf("some "); puthex(out, vs); putchar('\n'); }
            else if (out[vs] == 0) printf("none\n"); else printf("badflag %02x\n", out[vs]);
            ferret_map_get_result_t r = ferret_map_get_optional(maps[h], k); (void)r;
            free(out); free(k); free(tf);
        } else if (!strcmp(cmd, "msize")) {
            int h = atoi(TOK()); printf("%zu %d\n", ferret_map_size(maps[h]), (int)ferret_len_map(maps[h]));
        } else if (!strcmp(cmd, "miter")) {
            int h = atoi(TOK()); ferret_map_iter_t it; memset(&it, 0xA5, sizeof it); size_t n = 0;
            if (ferret_map_iter_begin(maps[h], &it)) {
                void* k; void* v;
                while (ferret_map_iter_next(maps[h], &it, &k, &v)) {
                    if (n++) putchar(' ');
                    print_key(mkind[h], k, maps[h]->key_size); putchar('='); puthex(v, maps[h]->value_size);
                    if (n > 100000) break;
                }
            }
            if (n == 0) printf("empty");
            putchar('\n');
        } else if (!strcmp(cmd, "mdestroy")) {
            int h = atoi(TOK()); ferret_map_destroy(maps[h]); maps[h] = NULL; printf("ok\n");
        } else if (!strcmp(cmd, "anew")) {
            int h = atoi(TOK()); size_t es = strtoul(TOK(), 0, 10); int cap = atoi(TOK());
            arrs[h] = ferret_array_new(es, cap); printf("%s\n", arrs[h] ? "ok" : "null");
        } else if (!strcmp(cmd, "aappend") || !strcmp(cmd, "aappend2")) {
            int h = atoi(TOK()); size_t n; uint8_t* e = unhex(TOK(), &n);
            bool ok = cmd[7] ? ferret_append_array(arrs[h], e) : ferret_array_append(arrs[h], e);
            free(e); printf("%d\n", ok ? 1 : 0);
        } else if (!strcmp(cmd, "aget")) {
            int h = atoi(TOK()); int idx = atoi(TOK()); void* p = ferret_array_get(arrs[h], idx);
            if (p) { puthex(p, arrs[h]->elem_size); putchar('\n'); } else printf("nil\n");
        } else if (!strcmp(cmd, "aset")) {
            int h = atoi(TOK()); int idx = atoi(TOK()); size_t n; uint8_t* e = unhex(TOK(), &n);
            printf("%d\n", ferret_array_set(arrs[h], idx, e) ? 1 : 0); free(e);
        } else if (!strcmp(cmd, "alen")) {
            int h = atoi(TOK()); printf("%d %d\n", ferret_array_len(arrs[h]), ferret_len_array(arrs[h]));
        } else if (!strcmp(cmd, "acap")) {
            int h = atoi(TOK()); printf("%d\n", ferret_array_cap(arrs[h]) >= ferret_array_len(arrs[h]) ? 1 : 0);
        } else if (!strcmp(cmd, "adestroy")) {
            int h = atoi(TOK()); ferret_array_destroy(arrs[h]); arrs[h] = NULL; printf("ok\n");
        } else if (!strcmp(cmd, "unwrap")) {
            size_t vs = strtoul(TOK(), 0, 10); size_t on; uint8_t* opt = unhex(TOK(), &on); char* d = TOK();
            size_t dn = 0; uint8_t* def = NULL; if (strcmp(d, "nil") != 0) def = unhex(d, &dn);
            uint8_t* out = malloc(vs); memset(out, 0x5A, vs);
            ferret_optional_unwrap_or(opt, def, out, vs);
            puthex(out, vs); putchar('\n'); free(out); free(opt); free(def);
        } else {
            printf("?cmd\n");
        }
    }
    for (int i = 0; i < MAXH; i++) { if (maps[i]) ferret_map_destroy(maps[i]); if (arrs[i]) ferret_array_destroy(arrs[i]); }
    for (size_t i = 0; i < n_interned; i++) free(interned[i]);
    free(interned);
    fflush(stdout);
    return 0;
}
