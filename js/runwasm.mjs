// node runwasm.mjs <module.wasm>   (runtime.mjs = copy of /repo/runtime/wasm/runtime.js next to this file)
// or: node runwasm.mjs <runtime.mjs> <module.wasm>
// stdout: program output. A throw is reported as "@@THROW <message>" on stderr with
// exit 3 (Error thrown by the JS runtime = panic), 4 (WebAssembly.RuntimeError = trap),
// 5 (module could not be compiled/instantiated/linked).
import { readFileSync, writeSync } from "node:fs";
import { pathToFileURL, fileURLToPath } from "node:url";
import path from "node:path";

let rtPath, wasmPath;
if (process.argv.length >= 4) { rtPath = process.argv[2]; wasmPath = process.argv[3]; }
else { rtPath = path.join(path.dirname(fileURLToPath(import.meta.url)), "runtime.mjs"); wasmPath = process.argv[2]; }

const lines = [];
console.log = (...a) => { lines.push(a.join(" ")); if (lines.length > 512) flush(); };
function flush() { if (lines.length) { writeSync(1, lines.join("\n") + "\n"); lines.length = 0; } }
function oneLine(e) { return String(e && e.message !== undefined ? e.message : e).replace(/\s+/g, " ").slice(0, 300); }

let instance, rt;
try {
  const { createFerretRuntime } = await import(pathToFileURL(rtPath).href);
  rt = createFerretRuntime();
  const bytes = readFileSync(wasmPath);
  const mod = await WebAssembly.compile(bytes);
  instance = await WebAssembly.instantiate(mod, rt.imports);
  rt.bind(instance);
} catch (e) {
  flush();
  process.stderr.write("@@THROW link " + oneLine(e) + "\n");
  process.exit(5);
}
try {
  instance.exports.main();
  flush();
  process.exit(0);
} catch (e) {
  flush();
  if (e instanceof WebAssembly.RuntimeError) {
    process.stderr.write("@@THROW trap " + oneLine(e) + "\n");
    process.exit(4);
  }
  if (e instanceof RangeError) { // e.g. DataView offset outside memory: the JS runtime ran out of heap
    process.stderr.write("@@THROW range " + oneLine(e) + "\n");
    process.exit(6);
  }
  process.stderr.write("@@THROW panic " + oneLine(e) + "\n");
  process.exit(3);
}
