#!/bin/sh
# usage: tools/seedsweep.sh [out.tsv] [ids...]   — runs every seeded change (or the listed <prop>/<variant>) through its check
# (quick, then thorough when quick stays silent) in scratch worktrees; appends one line per change to out.tsv.
OUT=${1:-/verif/seeded/sweep.tsv}; shift
cd /verif || exit 2
export SEEDWT_HEAD=1
LIST="$*"
[ -z "$LIST" ] && LIST=$(ls -d seeded/C*/* | sed 's#seeded/##')
for pv in $LIST; do
  id=${pv%%/*}
  p=seeded/$pv/patch.diff
  [ -f "$p" ] || continue
  r=$(tools/seedwt.sh "$p" "$id" quick 1 2>&1 | head -1)
  case "$r" in
    *"violations=0"*) r2=$(tools/seedwt.sh "$p" "$id" thorough 1 2>&1 | head -1) ;;
    *) r2="-" ;;
  esac
  printf '%s\t%s\t%s\n' "$pv" "$r" "$r2" >> "$OUT"
done
