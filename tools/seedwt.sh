#!/bin/sh
# usage: tools/seedwt.sh <patch.diff> <check-id> [tier] [seed]
# Runs one check against a scratch git worktree of /repo (HEAD) with a seeded change applied.
# /repo's own working tree is never touched, no evidence file is written, and the worktree,
# the rig copy and their build output are removed afterwards.
# Prints: check=<id> tier=<t> seed=<s> exit=<rc> violations=<n> + first VIOLATION / SUMMARY lines.
P=$(readlink -f "$1"); ID=$2; TIER=${3:-quick}; SEED=${4:-1}
N=$$
WT=/tmp/seedwt-$N; RIG=/tmp/seedrig-$N; LOG=/tmp/seedwt-$N.log
export GOFLAGS=-mod=mod GOPROXY=off
unset GOSUMDB GOTOOLCHAIN 2>/dev/null || true
cleanup() {
  git -C /repo worktree remove --force "$WT" >/dev/null 2>&1
  rm -rf "$WT" "$RIG" "$LOG"
  git -C /repo worktree prune >/dev/null 2>&1
}
trap cleanup EXIT INT TERM
git -C /repo worktree add --detach "$WT" HEAD >/dev/null 2>&1 || { echo "seedwt: cannot create worktree"; exit 2; }
if [ "$P" != "/dev/null" ]; then
  git -C "$WT" apply "$P" || { echo "seedwt: patch does not apply"; exit 2; }
fi
mkdir -p "$RIG"
if [ -n "${SEEDWT_HEAD:-}" ]; then   # committed rig (safe while the working tree is being edited)
  git -C /verif archive HEAD rig | tar -x -C "$RIG" --strip-components=1
else
  cp -r /verif/rig/. "$RIG"/
fi
sed -i "s#replace compiler => /repo#replace compiler => $WT#" "$RIG/go.mod"
QH=$(cat "$WT"/qbe/*.c "$WT"/qbe/*.h "$WT"/qbe/*/*.c "$WT"/qbe/*/*.h 2>/dev/null | md5sum | cut -c1-16)
export CGO_CFLAGS="-O2 -g -DVERIF_QBE_SRC_HASH=$QH"
if ! (cd "$RIG" && go build -tags verif -o "$RIG/vcheck.bin" ./cmd/vcheck) > "$LOG" 2>&1; then
  echo "seedwt: rig build failed"; tail -20 "$LOG"; exit 2
fi
VERIF_REPO=$WT VERIF_DIR=/verif VERIF_NO_EVIDENCE=1 VERIF_SEED=$SEED "$RIG/vcheck.bin" "$ID" --tier "$TIER" > "$LOG" 2>&1; rc=$?
nv=$(grep -c '^VIOLATION' "$LOG")
echo "check=$ID tier=$TIER seed=$SEED exit=$rc violations=$nv"
grep -m3 '^VIOLATION' "$LOG"
grep '^SUMMARY' "$LOG"
grep -m2 'HARNESS' "$LOG"
[ -n "${SEEDWT_KEEPLOG:-}" ] && cp "$LOG" "$SEEDWT_KEEPLOG"
exit 0
