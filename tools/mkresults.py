#!/usr/bin/env python3
# Regenerates seeded/RESULTS.md from seeded/sweep.tsv (latest line per seeded change wins) and the meta.json files.
import json, os, re, glob
HERE = os.path.dirname(os.path.dirname(os.path.abspath(__file__)))
rows = {}
for l in open(os.path.join(HERE, "seeded", "sweep.tsv")):
    p = l.rstrip("\n").split("\t")
    if len(p) >= 3:
        rows[p[0]] = (p[1], p[2])
def verdict(s):
    m = re.search(r"exit=(\d+) violations=(\d+)", s)
    if not m:
        return "not run" if s.strip() in ("-", "") else s.strip()[:40]
    return "caught (%s violation lines)" % m.group(2) if m.group(2) != "0" else "silent"
notes = {}
np = os.path.join(HERE, "seeded", "notes.json")
if os.path.exists(np):
    notes = json.load(open(np))
out = ["# Seeded changes and the checks that report them", "",
       "Each row is one change kept under `seeded/<property>/<variant>/` (`patch.diff`, `demo/`, `meta.json`, `verify.txt` where present).",
       "`quick` / `thorough` = outcome of `tools/seedwt.sh <patch> <property> <tier>` (the property's own check run against a scratch worktree",
       "of /repo HEAD with the patch applied; /repo itself is never touched). `silent` in `quick` followed by `caught` in `thorough` means the change",
       "needs the larger workload. The `note` column records what was strengthened when a check first missed the change, and other checks that also report it.", "",
       "| change | what it does | quick | thorough | note |", "|---|---|---|---|---|"]
for d in sorted(glob.glob(os.path.join(HERE, "seeded", "C*", "*"))):
    if not os.path.isdir(d):
        continue
    key = os.path.relpath(d, os.path.join(HERE, "seeded"))
    meta = {}
    try:
        meta = json.load(open(os.path.join(d, "meta.json")))
    except Exception:
        pass
    summ = (meta.get("summary") or meta.get("what") or "").replace("|", "/").replace("\n", " ")
    summ = summ[:230] + ("…" if len(summ) > 230 else "")
    q, t = rows.get(key, ("-", "-"))
    tv = verdict(t) if verdict(q) == "silent" else "—"
    out.append("| %s | %s | %s | %s | %s |" % (key, summ, verdict(q), tv, notes.get(key, "")))
open(os.path.join(HERE, "seeded", "RESULTS.md"), "w").write("\n".join(out) + "\n")
print("wrote RESULTS.md with", len(out) - 9, "rows")
