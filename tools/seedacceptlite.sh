#!/bin/sh
# usage: tools/seedacceptlite.sh <ID><variant> ...  — like seedaccept.sh but runs only the quick tier of the check
# (confirm with seedverify.sh, copy to seeded/<ID>/<v>/, one line in seeded/sweep.tsv)
cd /verif || exit 2
export SEEDWT_HEAD=1
for x in "$@"; do
  id=$(echo "$x" | cut -c1-3); v=$(echo "$x" | cut -c4-)
  src=/tmp/seed-out/$x
  [ -f "$src/patch.diff" ] || continue
  tools/seedverify.sh "$src" > "$src/verify.txt" 2>&1
  if grep -q 'TESTS: exit=0' "$src/verify.txt" && grep -q 'BUILD: ok' "$src/verify.txt"; then :; else echo "$x: NOT CONFIRMED"; continue; fi
  mkdir -p seeded/$id/$v; cp -r "$src"/. seeded/$id/$v/
  r=$(tools/seedwt.sh seeded/$id/$v/patch.diff "$id" quick 1 2>&1 | head -1)
  printf '%s\t%s\t%s\n' "$id/$v" "$r" "-" >> seeded/sweep.tsv
  echo "$x: $(grep DEMO "$src/verify.txt" | sed 's/last:.*//' | tr '\n' ' ') => $r"
done
