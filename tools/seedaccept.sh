#!/bin/sh
# usage: tools/seedaccept.sh <ID><variant> ...   e.g. C05c — for each: verify /tmp/seed-out/<ID><v> (seedverify.sh), copy it to
# /verif/seeded/<ID>/<v>/ (with verify.txt), run the property's check against it (quick, thorough if quick is silent) and append the
# outcome to /verif/seeded/sweep.tsv
cd /verif || exit 2
export SEEDWT_HEAD=1
for x in "$@"; do
  id=$(echo "$x" | cut -c1-3); v=$(echo "$x" | cut -c4-)
  src=/tmp/seed-out/$x
  [ -f "$src/patch.diff" ] || { echo "$x: no patch"; continue; }
  tools/seedverify.sh "$src" > "$src/verify.txt" 2>&1
  if grep -q 'TESTS: exit=0' "$src/verify.txt" && grep -q 'BUILD: ok' "$src/verify.txt"; then :; else echo "$x: NOT CONFIRMED (build/tests)"; cat "$src/verify.txt"; continue; fi
  mkdir -p seeded/$id/$v; cp -r "$src"/. seeded/$id/$v/
  r=$(tools/seedwt.sh seeded/$id/$v/patch.diff "$id" quick 1 2>&1 | head -1)
  case "$r" in *"violations=0"*) r2=$(tools/seedwt.sh seeded/$id/$v/patch.diff "$id" thorough 1 2>&1 | head -1) ;; *) r2="-" ;; esac
  printf '%s\t%s\t%s\n' "$id/$v" "$r" "$r2" >> seeded/sweep.tsv
  echo "$x: $(grep DEMO "$src/verify.txt" | tr '\n' ' ' | cut -c1-200) => $r | $r2"
done
