#!/bin/sh
# usage: tools/seedrun.sh <patch.diff> <check-id> [tier] [seed]
# Applies a seeded change to /repo's working tree, runs one check, and restores the tree. Never commits in /repo.
P=$1; ID=$2; TIER=${3:-quick}; SEED=${4:-1}
cd /verif || exit 2
if [ -n "$(git -C /repo status --porcelain)" ]; then echo "seedrun: /repo is not clean"; exit 2; fi
git -C /repo apply "$P" || { echo "seedrun: patch does not apply"; exit 2; }
VERIF_SEED=$SEED ./vcheck $ID --tier $TIER > /tmp/seedrun.$$.log 2>&1; rc=$?
git -C /repo checkout -- . ; git -C /repo clean -fdq -- . 2>/dev/null
find /repo -name .ferret -type d -empty -delete 2>/dev/null
nv=$(grep -c '^VIOLATION' /tmp/seedrun.$$.log)
echo "check=$ID tier=$TIER seed=$SEED exit=$rc violations=$nv"
grep -m3 '^VIOLATION' /tmp/seedrun.$$.log
grep '^SUMMARY' /tmp/seedrun.$$.log
grep -m2 'HARNESS' /tmp/seedrun.$$.log
rm -f /tmp/seedrun.$$.log
