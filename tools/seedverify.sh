#!/bin/sh
# usage: tools/seedverify.sh <dir with patch.diff and demo/>  — confirms a seeded change independently:
# applies patch.diff to a fresh worktree of /repo HEAD, builds, runs the whole unedited suite, builds ferret + libs,
# and runs demo/demo.sh <ferret> <libs> with the changed and with the clean compiler. Prints one line per step.
D=$(readlink -f "$1"); N=$$
WT=/tmp/sv-wt-$N; WTC=/tmp/sv-wtc-$N; S=/tmp/sv-$N
export GOFLAGS=-mod=mod GOPROXY=off
unset GOSUMDB GOTOOLCHAIN 2>/dev/null || true
cleanup() { git -C /repo worktree remove --force "$WT" >/dev/null 2>&1; git -C /repo worktree remove --force "$WTC" >/dev/null 2>&1; rm -rf "$WT" "$WTC" "$S"; git -C /repo worktree prune; }
trap cleanup EXIT INT TERM
git -C /repo worktree add --detach "$WT" HEAD >/dev/null 2>&1 || exit 2
git -C /repo worktree add --detach "$WTC" HEAD >/dev/null 2>&1 || exit 2
mk() { # $1 = tree, $2 = out
  mkdir -p "$2/bin" "$2/libs"
  (cd "$1" && go build -o "$2/bin/ferret" . ) || return 1
  for f in "$1"/runtime/core/*.c "$1"/runtime/libs/*.c; do gcc -std=c99 -O2 -w -fno-pie -I "$1/runtime/core" -I "$1/runtime/libs" -c "$f" -o "$2/libs/$(basename "$f" .c).o" || return 1; done
  ar rcs "$2/libs/libferret_runtime.a" "$2"/libs/*.o; rm -f "$2"/libs/*.o; cp -r "$1"/ferret_libs/. "$2/libs/"
  mkdir -p "$2/rt"; cp -r "$1/runtime" "$2/rt/"
}
mk "$WT" "$S/clean" || { echo "clean build failed"; exit 2; }
git -C "$WT" apply "$D/patch.diff" || { echo "APPLY: failed"; exit 1; }
echo "APPLY: ok ($(git -C "$WT" diff --stat | tail -1))"
(cd "$WT" && go build ./... ) > "$S/build.log" 2>&1 && echo "BUILD: ok" || { echo "BUILD: FAILED"; tail -5 "$S/build.log"; }
(cd "$WT" && go test -vet=off -count=1 ./... ) > "$S/test.log" 2>&1; trc=$?
echo "TESTS: exit=$trc ok=$(grep -c '^ok' "$S/test.log") fail=$(grep -c '^FAIL\|^--- FAIL' "$S/test.log")"
mk "$WT" "$S/seeded" || { echo "seeded build failed"; exit 2; }
if [ -f "$D/demo/demo.sh" ]; then
  for which in clean seeded; do
    rm -rf "$S/demo"; cp -r "$D/demo" "$S/demo"
    tree=$WT; [ $which = clean ] && tree=$WTC
    (cd "$S/demo" && FERRET_SRC="$tree" FERRET_RT="$S/$which/rt/runtime" timeout 600 sh ./demo.sh "$S/$which/bin/ferret" "$S/$which/libs") > "$S/demo.$which.log" 2>&1; drc=$?
    if [ $drc -ge 2 ]; then  # some demos take the source tree as their first argument
      rm -rf "$S/demo"; cp -r "$D/demo" "$S/demo"
      (cd "$S/demo" && timeout 900 sh ./demo.sh "$tree" "$S/$which/bin/ferret" "$S/$which/libs") > "$S/demo.$which.log" 2>&1; drc=$?
      git -C "$tree" clean -fdq >/dev/null 2>&1
    fi
    (exit $drc)
    echo "DEMO[$which]: exit=$? last: $(sed 's/\x1b\[[0-9;]*m//g' "$S/demo.$which.log" | grep -v '^$' | tail -2 | tr '\n' '|' | cut -c1-300)"
  done
else
  echo "DEMO: no demo.sh ($(ls "$D/demo" | tr '\n' ' '))"
fi
[ -n "${SV_KEEP:-}" ] && { mkdir -p "$SV_KEEP"; cp "$S"/*.log "$SV_KEEP"/; }
