#!/usr/bin/env python3
"""Regenerates /verif/MANIFEST.json from the table below and validates it."""
import json, os, subprocess, sys
HERE = os.path.dirname(os.path.dirname(os.path.abspath(__file__)))

# property -> (technique, level text, level note, design ref)
CHECKS = {
 "C20": ("in-process reference-model monitor (reflect.DeepEqual round trip, recover() around every call) over generated tables (written onto fresh and onto existing files), trivia-insertion variants and hostile byte strings",
         "Held on N executions: every generated table over the writable domain was written by the real writer and re-read by the real parser and compared value by value (Go type and float bits); every written file was re-parsed after inserting comments/blanks; hostile byte strings never crashed the parser. Exploration, not proof: strength = workload diversity (boundary floats/ints, structure-like strings, long lines).",
         "trusts the rig's generator to stay inside the stated domain; compiler/toml is linked from /repo's working tree by the wrapper's go build", "DESIGN.md §3 C20"),
}
NOT_YET = {}
CHECKS["C01"] = ("reference-model monitor: generated core-language programs (typed mini-AST) executed by a reference interpreter and by the real pipeline (ferret -> embedded QBE -> as/ld -> native run, stdout to a file); thorough adds valgrind memcheck on a share of the executables; deterministic matrix programs (casts, operators, literal operands, parameters, write-through, constant flow, stale constants, ranges, self-referential aggregate assignment) and pinned probe programs for every fixed/open finding",
 "Held on N generated programs: each compiled natively without being rejected and printed exactly the reference interpreter's lines with the same termination kind, across all integer widths with boundary constants, casts, truncating division, structs/methods/by-value passing, enums+match, fixed and dynamic arrays, strings, recursion, closures (top level, nested blocks, loops, shared captured variables), results with catch, references, range loops with steps, loops with break/continue and observable evaluation order. Not a proof: strength = generator diversity (feature histogram in the evidence).",
 "the reference interpreter is the rig's reading of the stated semantics; constructs the property does not pin are not generated", "DESIGN.md §3 C01")
CHECKS["C02"] = ("relational monitor: the same generated program (integer/struct/array/enum/loop programs, f32/f64 arithmetic programs, composite-value programs with whole-aggregate assignments, the deterministic matrix programs, pinned probes) compiled by the real compiler for native and wasm; native executable vs .wasm under node with the shipped runtime.js; numeric comparison of float lines, termination-kind comparison",
 "Held on N programs accepted by both back ends: identical value sequences (floats within 1e-12 / 1e-5 for f32) and the same termination kind (normal vs panic/trap) on pointer size 8 (native) and 4 (wasm), including heap growth in runtime.js and out-of-bounds panics.",
 "programs rejected by either target or crashing the compiler are out of scope and only counted; the wasm back end lacks closures, results and string concatenation, so those features are compared by C01 only", "DESIGN.md §3 C02")
CHECKS["C04"] = ("reference-model monitor with dynamic index semantics over generated fixed-array programs (literal, const, reassigned, branch/match-dependent, loop-carried, incremented, borrowed, closure-modified, arithmetic and opaque indices, uses where no sound analysis knows the index) plus a directed matrix of 25 index-modifying containers x 7 use positions x taken/not taken x index known/unknown before, with canary locals; native run (thorough: valgrind on a share)",
 "Held on N programs: every program was either rejected with only T0028/T0009 (never when all indices were in-range literals/consts) or printed exactly the reference's lines — the element selected by the value the index has at that moment, negative values counting from the end — with untouched canaries, or panicked exactly where the reference does.",
 "scenario templates are the rig's reading of the property's index classes", "DESIGN.md §3 C04")
CHECKS["C08"] = ("reference-model monitor over generated dynamic-array / string histories (literal, appends across growth thresholds, get/set/len/iteration, arrays of arrays and struct-held arrays, literal / let-bound / opaque indices of every integer type at and around the bounds and beyond 32 bits, directed boundary values of every index type) on native (stdout to a file) and wasm; pinned probes",
 "Held on N histories: every index valid for the current length (negative and post-append positions included) was accepted and returned the stored element; every out-of-range index ended the program with an 'index out of bounds' panic and non-zero status after delivering all previously printed lines (or, for a compile-time-known index only, was rejected with T0009); no valgrind report in thorough.",
 "index values of u64 expressions stay below 2^63 (the rig models values as int64); maps are outside this property", "DESIGN.md §3 C08")
CHECKS["C09"] = ("relational monitor over pairs (generated program or deterministic matrix program, meaning-preserving rewrite: literal->call incl. conditions and range operands, subexpression->local, let->const, wrap in if true) compiled and run natively (thorough: also wasm); the reference interpreter is a third witness naming the wrong side",
 "Held on N pairs with >=1 rewrite applied: base and variant were both accepted and printed identical output with the same termination; the evidence lists how many rewrites of each kind were exercised.",
 "fixed-array index literals and match patterns are not rewritten; expressions that can panic or have side effects are never moved", "DESIGN.md §3 C09")
CHECKS["C03"] = ("verdict monitor by construction over the real type checker (in-process pool + CLI confirmation): generated well-typed base programs accepted by the compiler, mutated by injecting exactly one violation from a 17-rule catalogue (plain spellings, narrowing inside composite types, and the same ill-typed expression nested in 52 expression contexts, each context validated first with a well-typed operand; every (expression, context) pair also once in a minimal program) at a random site of a random statement context; native build sample observes that no executable is left",
 "Held on N mutants (14 or 400 base programs x 17 rule classes, spellings rotating over about 200 snippets, sites drawn from main/function/method/closure/if/else/while/for/match-arm/block): every base was accepted and every mutant was rejected with exit 1 and at least one error diagnostic, no crash; the sampled native builds left no executable.",
 "catalogue and contexts are the rig's reading of the property's list; snippets are self-contained so the violated rule is known by construction", "DESIGN.md §3 C03")
CHECKS["C19"] = ("relational monitor with an independent position model over the real compiler (in-process pool + CLI confirmation; token boundaries from the compiler's own lexer through the verif hook): program (usual layout, or condensed onto one line) vs. the same program with trivia inserted in 1..40 token gaps (the usual layout is itself a variant of the one-line layout); compares verdict, exit status, the multiset of located diagnostics mapped through the token correspondence, and the output of the produced native executables",
 "Held on N (program, reformatted program) pairs over accepted generated programs, type-error twins (one C03 rule injected) and parse-error twins (token deleted / duplicated / swapped): same verdict and exit status, every diagnostic reported for the reformatted text at exactly the line:column the rig's own position model assigns to the same token, and for accepted programs identical printed lines and termination.",
 "tabs only as the last character of a whitespace run (documented Position.Advance quirk); @extern text never right before `fn` (documented pragma); base texts are generator-printed ASCII", "DESIGN.md §3 C19")
CHECKS["C05"] = ("verdict monitor (reference path analysis -> MUST_REJECT / MUST_ACCEPT / MAY with a trailing-return control group) over the real type checker via the in-process pool with CLI confirmation, plus reference-model monitor: every accepted function/method/closure is executed natively over an argument grid and compared with the reference interpreter, which detects falling off the end",
 "Held on N generated bodies (nested if/else-if/else, int and enum match with/without default, while/for with break/continue, `while true` around constructs ending in return/break, early returns, conditions over parameters and over locals that are constant elsewhere in the function, 14 directed stale-constant templates; as functions, methods, function literals and nested function literals): every body with a syntactic path to its end was rejected while the same body with a trailing return was accepted; every all-paths-return body was accepted; every accepted callable returned, for all 25 grid argument tuples, exactly the value of the return statement the reference interpreter executes.",
 "conditions opaque; exhaustive enum matches without default are MAY; statements after a return are not generated", "DESIGN.md §3 C05")
CHECKS["C07"] = ("verdict monitor with an executable loan model (MUST_REJECT / MUST_ACCEPT / MAY) over generated borrow/use/access event sequences compiled by the real borrow checker (in-process pool + CLI confirmation), plus reference-model monitor: accepted programs are run natively and compared with the interpreter (write-through both ways); directed cases (reference used inside a nested construct, conflict after 0-6 other statements), fixed cases for returned references; pinned probes for derived references",
 "Held on N event sequences over variables, disjoint struct fields and array elements with up to three shared/mutable references (borrowed or copied from another reference variable) in straight-line code, blocks, if / else / else-if arms, match arms and loops: every sequence with a conflicting access while the reference is still used later was rejected, every conflict-free sequence was accepted, returning a reference to a local was rejected, and every accepted program printed what the reference interpreter prints.",
 "loan model = the rig's reading of the property; distinct array elements and statement-granularity expiry are MAY; references derived through calls are an open finding (kf-C07-derived)", "DESIGN.md §3 C07")
CHECKS["C06"] = ("verdict monitor by construction over the real type checker (in-process pool + CLI confirmation), complete enumeration of place kind x access path x mutation form x context with a mutable-binding control group; native value witness for wrongly accepted cases",
 "Exhaustive over the finite product the property names and its neighbours (about 3070 mutants + controls: const scalars, structs, fixed and dynamic arrays, strings, maps, optionals, module constants, two-variable loops over arrays / ranges / strings / map keys with named and discarded value variables, catch variables, &T parameters / receivers / locals): every program applying one mutation form to one immutable place was rejected by the real compiler while the same program with the binding made mutable was accepted, so each verdict is attributable to the immutability rule.",
 "the enumerated product is the rig's reading of the property's dimensions; syntactic contexts outside the seven listed are not covered", "DESIGN.md §3 C06")
CHECKS["C10"] = ("verdict monitor (math/big range oracle) over the real type checker via the in-process pool with CLI confirmation, plus reference-value monitor over native executables and wasm modules printing every accepted literal",
 "Held on N literals: for each of the 12 integer types, boundary values (min-1..max+1), 2^k+-1 and random magnitudes up to 2^300 spelled in 4 bases with separators and sign, in let/argument/return positions (and nine further positions: assignment, compound assignment, binary operand, field, array elements, element assignment, const, catch fallback), were accepted exactly when in range; every accepted literal was then printed by a produced native executable (all widths) and wasm module (<=64 bit) and equalled its mathematical value.",
 "trusts math/big; spelling space sampled, not enumerated; leading-zero decimals excluded", "DESIGN.md §3 C10")
CHECKS["C11"] = ("verdict monitor over the real compiler (in-process worker pool + CLI confirmation): exhaustive 17x17 type pairs x 21 assignment-like positions against an arithmetic oracle; native run-time check converting the boundary values of S in every accepted position of every accepted pair",
 "Exhaustive over the finite space the property names: every ordered pair of the 17 numeric types in 21 assignment-like positions was compiled by the real type checker; accepted-without-cast implied lossless by an oracle computed from ranges and significand widths (not from the compiler's table); every lossy pair was rejected implicitly and accepted with `as`; accepted pairs up to 64 bits were executed natively on the boundary values of S in all of their accepted positions and printed the unchanged value.",
 "trusts the oracle's float parameters (24/53/113/237-bit significands); positions outside the 21 listed are not covered", "DESIGN.md §3 C11")
CHECKS["C12"] = ("verdict monitor by construction over generated multi-module projects compiled by the real compiler (in-process pool + CLI confirmation): lowercase/uppercase twins of every symbol kind in identical access sites, contexts and import shapes, enumerated completely",
 "Exhaustive over the enumerated catalogue (about 6000 projects): in every access site x context x import shape the lowercase twin (const, variable, function, struct type, enum type, struct field, struct field sharing its name with a method; other module and same module outside the receiver) was rejected and the uppercase twin in the identical position accepted; struct literals initialising private fields and receiver access were accepted.",
 "catalogue = the rig's reading of the property's dimensions; private methods / enum variants not asserted", "DESIGN.md §3 C12")
CHECKS["C13"] = ("crash/hang/contract monitor over hostile inputs: in-process worker pool (panic caught with stack, worker death attributed to the logged job) for type-check and wasm targets, real CLI under RLIMIT_CPU for native target and for every suspicious input; predicates over the outcome record (exit status vs diagnostics vs artifact vs locations)",
 "Held on N hostile inputs (random bytes, UTF-8 noise, truncations, token mutations of the corpus, token soup, deep nesting, encoding oddities, malformed multi-file projects, an import-path-spelling x alias-use matrix, a separator matrix): no Go panic/fatal error/signal, CPU budget respected, exit status in {0,1} and equal to 'an error diagnostic was printed', artifact present iff success, every printed location inside an input file.",
 "CPU budget (20 s) and input size bound (16 KiB, nesting <= 400) are the rig's choices; a wall-clock watchdog firing is inconclusive", "DESIGN.md §3 C13")
CHECKS["C14"] = ("relational monitor across repeated compilations of generated multi-module projects under perturbed schedules (verif hook: Gosched/sleep at parse points + event log proving distinct parse orders), varied GOMAXPROCS, the Go race detector, and the plain binary; byte comparison of exit status, stderr, gen/*.ssa and .wasm",
 "Held on N projects (ok / type errors / parse errors / parse-error next to single-importer chains / import cycle; most modules reachable only through other modules) x K schedules: every run of the same project directory (hook-perturbed ferret-verif under GOMAXPROCS 1/2/4/16, ferret-race, plain ferret; native -keep-gen and wasm) produced the same exit status, byte-identical diagnostics, QBE IL per module and .wasm; the event log showed >=2 distinct parse orders per counted project; the race detector reported nothing.",
 "schedules are sampled (hook points + GOMAXPROCS), not enumerated; map-order nondeterminism is only seen with probability per run; cyclic projects are compared on exit status/presence of the error only (open finding kf-C14-cycle)", "DESIGN.md §3 C14")
CHECKS["C15"] = ("verdict monitor by construction over projects generated from digraphs (all 512 on 3 modules + sampled larger + a cycle stress of sibling 2-/3-cycles with hubs, repeated) compiled by hook-perturbed workers and the ferret-verif CLI under varied GOMAXPROCS/VERIF_SCHED, native run of every DAG against an arithmetic oracle; offline exactly-once checker over the parse event log; porcupine linearizability check of concurrent AddDependency histories recorded at the client boundary",
 "Held on all 512 digraphs over 3 non-entry modules (exhaustive for that size) and sampled digraphs on 4-6 modules: every cyclic project (self-loops included) failed with a circular-import error and exit 1 without hanging, every DAG compiled under each schedule, its executable printed id+sum-of-dependencies for every module, each module was parsed exactly once; N concurrent AddDependency histories were linearizable w.r.t. 'reject iff imported reaches importer, else insert' and the final graph equalled the accepted edges.",
 "schedules sampled not enumerated; graphs with >3 modules sampled; porcupine timeouts are inconclusive", "DESIGN.md §3 C15")
CHECKS["C18"] = ("invariant monitor over the compiler's own DataLayout (verif hook, in-process) for random type expressions at pointer sizes 4 and 8, plus reference-model monitor over generated composite programs (full-width sentinels in every leaf, single-leaf overwrites, copies, whole sub-aggregate assignments, arrays of 2-7 byte structs, by-value calls, optional some/none, canaries) run natively and on wasm",
 "Held on N type expressions x 2 pointer sizes (no overlapping or out-of-bounds field, offsets aligned, size multiple of alignment, array stride = element size, optional flag and result discriminant inside the value) and on M generated programs in which every leaf, after every overwrite/copy/call/optional wrap, read back exactly its sentinel while all other leaves and the canary locals stayed unchanged.",
 "results with aggregate payloads are rejected by the native back end today and therefore not in the dynamic part; optionals and 128/256-bit leaves run natively only", "DESIGN.md §3 C18")
CHECKS["C16"] = ("reference-model monitor: math/big oracle over the exported C API of bigint.c (value and _ptr forms) behind a clang ASan+UBSan driver, limb-boundary-weighted operand workload; plus an end-to-end layer: generated Ferret programs over i128/u128/i256/u256 (operators, comparisons, ** , casts from/to every narrower integer type and between the large types, compound assignment, ++/--, by-value calls, struct fields, fixed-array elements, loops, branches) compiled by the real compiler, linked with the real runtime, run natively and compared value by value with math/big",
 "Held on N calls: every exported ferret_{i,u}{128,256}_* operation (add, sub, mul, div, mod, comparisons, and/or/xor/not, shl/shr, pow, 64-bit conversions, decimal/hex/octal/binary text conversion) returned the math/big result reduced mod 2^N on every generated operand pair, in both calling forms, without a sanitizer report. Exploration over a 2^256 space: strength comes from boundary weighting (limb edges, sign boundaries, borrow/carry chains), not enumeration. End-to-end: every value printed by M generated large-integer programs equalled the math/big value (covers the lowering in emitLargeBinary/Compare/Cast/Const).",
 "trusts math/big and the hex transport of the driver; division by zero, negative shifts/exponents are out of the property's domain", "DESIGN.md §3 C16")
CHECKS["C17"] = ("reference-model monitor: Go map/slice model over operation histories run through the real map.c/array.c/optional.c behind an ASan+UBSan driver (thorough: also valgrind memcheck on an uninstrumented build)",
 "Held on N histories: every return value of the runtime map/array/optional API matched the abstract model (latest value per key, size = distinct keys, iteration visits each entry exactly once, out-of-range array requests refused) across resize thresholds, for i32/i64/string/byte-blob keys, with exact-size heap buffers so over-reads/over-writes and leaks are visible to the sanitizers.",
 "trusts the Go model and the driver's hex transport; a clean sanitizer run is not a memory-safety proof (red-zone tools miss intra-object overflows)", "DESIGN.md §3 C17")

def main():
    props = [json.loads(l)["id"] for l in open(os.path.join(HERE, "properties.jsonl"))]
    hooks_commits = []
    hc = os.path.join(HERE, "hook_commits.txt")
    if os.path.exists(hc):
        hooks_commits = [l.split()[0] for l in open(hc) if l.strip()]
    m = {
     "version": 1,
     "setup_cmd": "cd /verif/rig && GOFLAGS=-mod=mod GOPROXY=off go build -tags verif -o /verif/bin/vcheck ./cmd/vcheck",
     "hooks": {
       "guard": "verif",
       "enable": "go build -tags verif (the rig builds ferret-verif / ferret-race from /repo's working tree; the rig itself links compiler/verifhook with -tags verif)",
       "baseline_off_cmd": json.load(open("/root/.vp/BASELINE.json"))["cmd"],
       "source_commits": hooks_commits,
       "add_only": True,
     },
     "engines": [{"name": "vcheck", "path": "/verif/rig", "serves_properties": sorted(CHECKS), "kind_free_text": "Go rig: builds the real compiler/runtime from /repo, generates workloads, runs them under monitors (reference models, relational oracles, sanitizers, race detector) and writes evidence"}],
     "checks": [],
     "notes": "All checks are runtime monitors over executions of the real code; see DESIGN.md. KNOWN-FINDING lines come from /verif/known_findings.json.",
     "not_applicable": [],
    }
    for p in props:
        if p in CHECKS:
            tech, text, note, ref = CHECKS[p]
            m["checks"].append({
              "property_id": p,
              "quick_cmd": f"./vcheck {p} --tier quick",
              "thorough_cmd": f"./vcheck {p} --tier thorough",
              "evidence_file": f"/verif/evidence/{p}.json",
              "replay_cmd_template": f"./vcheck {p} --replay {{path}}",
              "engine": "vcheck",
              "level_claimed": {"category": "exploration", "text": text, "design_ref": ref},
              "level_note": note,
              "technique": tech,
            })
        else:
            m["not_applicable"].append({"property_id": p, "reason": NOT_YET.get(p, "monitor designed (DESIGN.md §3) but not built yet in this session; not claimed until its check exists and is silent on the unchanged tree")})
    out = os.path.join(HERE, "MANIFEST.json")
    json.dump(m, open(out, "w"), indent=1)
    open(out, "a").write("\n")
    try:
        import jsonschema
        jsonschema.validate(m, json.load(open("/root/.vp/MANIFEST.schema.json")))
        print("MANIFEST.json valid;", len(m["checks"]), "checks,", len(m["not_applicable"]), "not_applicable")
    except ImportError:
        print("jsonschema not importable; run with python3-vt")

if __name__ == "__main__":
    main()
